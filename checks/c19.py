#!/venv/bin/python
"""C19 check: deterministic simulation of furax's Config scoping, capture and isolation.

    python checks/c19.py --tier quick|thorough|smoke      campaign (VERIF_SEED, VERIF_TIER honoured)
    python checks/c19.py --replay FILE                    replay a recorded violation in this fresh interpreter
    python checks/c19.py --seed N [--sub NAME]            one run of a per-run seed, verbose

Exit codes: 0 held on everything explored; 1 + `VIOLATION property=C19 replay=<path>`;
2 harness error / stall / nondeterminism / replay divergence (never 0, never a violation).
"""

from __future__ import annotations

import argparse
import json
import os
import sys
import time

HERE = os.path.dirname(os.path.abspath(__file__))
ROOT = os.path.dirname(HERE)
sys.path.insert(0, ROOT)

from sim import env  # noqa: E402

PROPERTY = 'C19'
# the two overrides exist for the mutant self-test only, so that it never rewrites the real evidence
EVIDENCE = os.environ.get('VERIF_EVIDENCE') or os.path.join(ROOT, 'evidence', 'C19.json')
REPLAYS = os.environ.get('VERIF_REPLAYS') or os.path.join(ROOT, 'replays')
KNOWN = os.environ.get('VERIF_KNOWN') or os.path.join(ROOT, 'known_findings.json')  # override: self-test only


def out(msg: str) -> None:
    from sim import interp

    stream = interp.real_stdout() if 'sim.interp' in sys.modules else sys.stdout
    stream.write(msg + '\n')
    stream.flush()


def git_state() -> dict:
    import hashlib
    import subprocess

    repo = os.path.dirname(env.furax_src())
    src_sha = hashlib.sha256()
    for name in ('config.py', 'core.py', 'blocks.py'):
        try:
            with open(os.path.join(env.furax_src(), 'furax', '_base', name), 'rb') as f:
                src_sha.update(f.read())
        except OSError:
            pass
    src_sha = src_sha.hexdigest()[:16]
    try:
        head = subprocess.run(['git', '-C', repo, 'rev-parse', 'HEAD'], capture_output=True, text=True, timeout=20).stdout.strip()
        diff = subprocess.run(['git', '-C', repo, 'diff', 'HEAD', '--', 'src'], capture_output=True, text=True, timeout=20).stdout
        return {'furax_src': env.furax_src(), 'furax_head': head, 'furax_diff_sha': hashlib.sha256(diff.encode()).hexdigest()[:16], 'src_sha': src_sha}
    except Exception as exc:  # scratch copies are not git checkouts
        return {'furax_src': env.furax_src(), 'furax_head': None, 'furax_diff_sha': None, 'src_sha': src_sha, 'note': repr(exc)}


def load_known() -> dict:
    try:
        with open(KNOWN) as f:
            return json.load(f)
    except FileNotFoundError:
        return {'findings': [], 'fixed': []}


def match_known(known: dict, violation: dict, spec: dict) -> dict | None:
    from sim import program

    kinds = {s[0] for p in spec['programs'] for s in program.iter_statements(p)}
    for f in known.get('findings', []):
        if f.get('property') != PROPERTY or f.get('clause') != violation['clause']:
            continue
        if f.get('site') and f['site'] != violation['detail'].get('site'):
            continue
        if not set(f.get('needs', [])) <= kinds:
            continue
        return f
    return None


# ----------------------------------------------------------------------------- single run / replay
def cmd_seed(seed: int, sub: str, tier: str) -> int:
    env.setup()
    from sim import campaign, program, runner

    spec = program.generate(seed, campaign._profile_for(sub, tier))
    res = runner.run_spec(spec, keep_events=True)
    out(json.dumps({'spec': spec}, default=str)[:4000])
    for ev in res['events'][:400]:
        out(json.dumps(ev, default=str))
    out(json.dumps({k: v for k, v in campaign.strip(res).items() if k not in ('events', 'states', 'decisions')}, default=str, indent=1))
    return {'ok': 0, 'violation': 1}.get(res['status'], 2)


def cmd_replay(path: str) -> int:
    env.setup()
    from sim import campaign, runner

    with open(path) as f:
        rec = json.load(f)
    spec = rec['spec']
    if rec.get('history'):
        out(f'replay: re-executing the {len(rec["history"])} recorded earlier run(s) first')
        res = campaign.run_history_then_spec((rec['history'], spec))
    else:
        res = campaign.strip(runner.run_spec(spec))
    want = rec.get('violation') or {}
    ev = res.get('earlier_violation')
    if rec.get('address_dependent') and res['status'] != 'violation' and ev is not None and ev['result']['violation']['clause'] == want.get('clause'):
        out(f'replay: the final run passed this time, but run {ev["position"]} of the recorded sequence violates the same clause: ' + json.dumps(ev['result']['violation'], default=str)[:600])
        out(f'VIOLATION property={PROPERTY} replay={os.path.abspath(path)}')
        return 1
    out(f'replay: status={res["status"]} digest={res["digest"]} recorded={rec.get("digest")}')
    if res['status'] == 'harness':
        out('HARNESS-ERROR during replay:\n' + (res['harness_error'] or ''))
        return 2
    if res['status'] == 'ok':
        out(f'replay: no violation on this tree (recorded clause {want.get("clause")})')
        return 0
    v = res['violation']
    out('replay: ' + json.dumps(v, default=str))
    if v['clause'] == want.get('clause') and (res['digest'] != rec.get('digest') or v['seq'] != want.get('seq')) and rec.get('address_dependent'):
        # the same clause fails, at another event: the failure depends on something no simulator controls
        # (memory addresses reused by the allocator, typically).  Still a reproduction of the violation.
        out('replay: the same clause is violated, at a different event than recorded (the failure is not a pure function of the schedule)')
        out(f'VIOLATION property={PROPERTY} replay={os.path.abspath(path)}')
        return 1
    now = git_state()
    same_code = rec.get('tree', {}).get('furax_diff_sha') == now.get('furax_diff_sha') and rec.get('tree', {}).get('furax_head') == now.get('furax_head') and rec.get('tree', {}).get('src_sha') == now.get('src_sha')
    if res['digest'] != rec.get('digest') or v['clause'] != want.get('clause') or v['seq'] != want.get('seq'):
        if same_code:
            out('REPLAY-DIVERGED: same tree, different execution')
            return 2
        out('replay: a violation occurs on this tree too, but the tree differs from the recorded one, so the executions differ')
    else:
        out('replay: reproduced exactly (same clause, same event, same digest)')
    out(f'VIOLATION property={PROPERTY} replay={os.path.abspath(path)}')
    return 1


# ----------------------------------------------------------------------------- campaign
def cmd_campaign(tier: str, verif_seed: int, workers: int) -> int:
    t_start = time.time()
    env.setup()
    import concurrent.futures

    from sim import campaign, program, shrink

    cfg = campaign.TIERS[tier]
    known = load_known()
    tree = git_state()
    out(f'C19 campaign: tier={tier} VERIF_SEED={verif_seed} workers={workers} furax={tree["furax_src"]} head={tree["furax_head"]} diff={tree["furax_diff_sha"]} src={tree["src_sha"]}')

    pool = campaign.make_pool(workers)
    total = campaign.new_agg()
    determinism = {'checked': 0, 'compared': 0, 'mismatches': [], 'modes': []}
    harness_problem: str | None = None
    known_hits: list = []
    unknown_bad: dict | None = None
    worker_crashes = 0
    deferred_problem: str | None = None
    try:
        # ---- 1. determinism mini-proof (DESIGN.md 3.4) ------------------------------------
        n = cfg['det_seeds']
        items = []
        subs = list(campaign.SUBS)
        for j in range(n):
            sub = subs[j % len(subs)]
            items.append((sub, 10_000_000 + j))
        half = max(1, len(items) // 2)
        f1 = pool.submit(campaign.digest_chunk, (verif_seed, tier, items[:half]))
        f2 = pool.submit(campaign.digest_chunk, (verif_seed, tier, items[half:]))
        f3 = pool.submit(campaign.digest_chunk, (verif_seed, tier, items))
        fresh = campaign.fresh_interpreter_digests(verif_seed, tier, [list(x) for x in items], '4242')
        a = f1.result(timeout=900) + f2.result(timeout=900)
        b = f3.result(timeout=900)
        determinism['checked'] = len(items)
        determinism['modes'] = ['two pool workers (PYTHONHASHSEED=0)', 'one pool worker, all runs in one process', 'fresh interpreter, PYTHONHASHSEED=4242', 'each thread-world run additionally replayed from its recorded decision list (digest must not change)']
        not_ok: list = []
        for x, y, z in zip(a, b, fresh):
            if not (x[3] == y[3] == z[3] == 'ok'):
                # a run that is not clean is handed to the campaign proper (below), which reports it;
                # digests of violating runs may legitimately differ when a broken implementation keeps
                # process-global state
                not_ok.append((x[0], x[1]))
                continue
            determinism['compared'] += 1
            if not (x[2] == y[2] == z[2]) or str(x[2]).startswith('REPLAY-MISMATCH'):
                determinism['mismatches'].append({'run': x[:2], 'digests': [x[2], y[2], z[2]]})
        if determinism['mismatches']:
            # Not fatal yet: an implementation that keeps configuration in process-global state makes
            # runs depend on what ran before them in the same process.  The campaign goes on; if it finds
            # a violation that is the verdict, otherwise the nondeterminism is reported (exit 2, never 0).
            deferred_problem = f'NONDETERMINISM: {determinism["mismatches"][:3]}'
        out(f'determinism: {len(items)} runs x 3 executions, compared={determinism["compared"]} mismatches={len(determinism["mismatches"])} not-ok={len(not_ok)} ({time.time() - t_start:.1f}s)')

        # ---- 2. sub-campaigns -------------------------------------------------------------
        deadline = time.time() + cfg['cap_s']
        chunks = []
        for sub, i in not_ok:
            chunks.append((verif_seed, sub, tier, [i], deadline))
        rest = []
        for sub, n_runs in cfg['runs'].items():
            size = cfg['chunk']['heavy' if sub.startswith('heavy') else 'light']
            for start in range(0, n_runs, size):
                rest.append((verif_seed, sub, tier, list(range(start, min(start + size, n_runs))), deadline))
        # heavy chunks first: they are the long poles
        rest.sort(key=lambda c: (not c[1].startswith('heavy'), c[3][0]))
        chunks += rest
        tasks: list = [(campaign.run_chunk, c) for c in chunks] if harness_problem is None else []
        if harness_problem is None:
            from sim import hyp

            for kind, (n_chunks, n_examples) in cfg.get('hyp', {}).items():
                for k in range(n_chunks):
                    hseed = campaign.run_seed_of(verif_seed, 'hypothesis-' + kind, k)
                    tasks.append((hyp.hypothesis_chunk, (hseed, kind == 'heavy', n_examples, deadline)))
        # A worker that dies abruptly (a crash inside native JAX/XLA code is the only way seen) gives
        # no verdict for its chunk: the pool is rebuilt and the unfinished chunks are run again, at most
        # three times; the crashes are counted in the evidence.  More than that is a harness error.
        def explore() -> None:
            nonlocal pool, tasks, harness_problem, unknown_bad, worker_crashes
            while tasks and harness_problem is None and unknown_bad is None:
                futures = {pool.submit(fn, args): (fn, args) for fn, args in tasks}
                finished: set = set()
                broke = False
                for fut in concurrent.futures.as_completed(list(futures)):
                    try:
                        part = fut.result()
                    except concurrent.futures.process.BrokenProcessPool:
                        broke = True
                        break
                    finished.add(fut)
                    bad = part['bad']
                    part['bad'] = None
                    campaign.merge_agg(total, part)
                    if bad is None:
                        continue
                    if bad['result']['status'] == 'harness':
                        harness_problem = f'HARNESS-ERROR in run {bad["sub"]}#{bad["index"]} seed={bad["spec"]["seed"]}:\n{bad["result"]["harness_error"]}'
                        break
                    hit = match_known(known, bad['result']['violation'], bad['spec'])
                    if hit is not None:
                        known_hits.append((hit, bad))
                        continue
                    unknown_bad = bad
                    break
                tasks = [t for f, t in futures.items() if f not in finished]
                if not broke:
                    break
                worker_crashes += 1
                out(f'note: a worker process died abruptly (crash #{worker_crashes}); rebuilding the pool and re-running {len(tasks)} unfinished chunk(s)')
                campaign.kill_pool(pool)
                if worker_crashes > 3:
                    harness_problem = 'HARNESS-ERROR: worker processes keep dying abruptly; see stderr for the faulthandler dumps'
                    break
                pool = campaign.make_pool(workers)

        explore()
    finally:
        campaign.kill_pool(pool)

    run_wall = time.time() - t_start
    rc = 0
    replay_path = None
    violations = 0
    minimised = None

    unreproducible: list = []

    def settle() -> None:
        nonlocal rc, replay_path, violations, minimised
        if unknown_bad is not None and harness_problem is None:
            violations = 1
            spec = unknown_bad['spec']
            v = unknown_bad['result']['violation']
            clause = v['clause']
            out(f'violation: clause={clause} seed={spec["seed"]} sub={unknown_bad["sub"]}#{unknown_bad["index"]} detail={json.dumps(v["detail"], default=str)[:500]}')
            os.makedirs(REPLAYS, exist_ok=True)
            base = os.path.join(REPLAYS, f'C19-{spec["seed"]}-{clause}')
            # every execution from here on is the first run of a brand-new process, so that a replay in a
            # fresh interpreter is the same execution
            # (two attempts: a failure that depends on memory addresses -- an id()-keyed cache in the code
            # under test, say -- shows up in most but not all fresh processes)
            firsts = campaign.run_fresh([spec, spec], parallel=2)
            first = next((r for r in firsts if r['status'] == 'violation' and r['violation']['clause'] == clause), firsts[0])
            reproduced = first['status'] == 'violation' and first['violation']['clause'] == clause
            if reproduced:
                with open(base + '.original.json', 'w') as f:
                    json.dump({'version': 1, 'property': PROPERTY, 'spec': spec, 'violation': first['violation'], 'digest': first['digest'], 'tree': tree}, f, indent=1, default=str)
                screener = campaign.Screener(workers)
                try:
                    small, res, used = shrink.minimise(spec, clause, lambda specs: campaign.run_fresh(specs, parallel=workers), budget=400 if tier != 'smoke' else 200, batch=workers, screen=screener)
                finally:
                    screener.close()
                if res is None:
                    small, res = spec, first
                minimised = {'statements_before': program.count_statements(spec), 'statements_after': program.count_statements(small), 'executions_each_in_a_new_process': used}
                record = {'version': 1, 'property': PROPERTY, 'seed': spec['seed'], 'spec': small, 'violation': res['violation'], 'digest': res['digest'], 'tree': tree, 'minimised': minimised,
                          'address_dependent': firsts[0]['digest'] != firsts[1]['digest']}
            else:
                out('violation did not reproduce in a brand-new process on its own; replaying the worker history that led to it')
                res = campaign.run_fresh_history(unknown_bad['history'], spec)
                ev = res.get('earlier_violation')
                if not (res['status'] == 'violation' and res['violation']['clause'] == clause) and ev is not None and ev['result']['violation']['clause'] == clause:
                    # The run itself did not fail again, but an earlier run of the same worker history failed
                    # with the same clause in the brand-new process: the failure moves around (it depends on
                    # memory addresses or the like) yet the sequence reliably produces it.  The replay file is
                    # that sequence up to its first failing run.
                    out(f'note: in the brand-new process the same clause failed earlier in the history (run {ev["position"]}); taking that run')
                    flat = campaign.flatten_history(unknown_bad['history'], spec['seed'])[: ev['position'] - 1]
                    record = {'version': 1, 'property': PROPERTY, 'seed': ev['spec']['seed'], 'spec': ev['spec'], 'history': flat, 'violation': ev['result']['violation'], 'digest': ev['result']['digest'], 'tree': tree,
                              'address_dependent': True,
                              'note': 'the failure is not a pure function of the schedule (it moves between runs of the same sequence); the replay re-executes the sequence and accepts a violation of the same clause in any of its runs'}
                    small = ev['spec']
                    minimised = {'statements_before': program.count_statements(spec), 'statements_after': program.count_statements(small), 'history_runs_after': len(flat), 'executions_each_in_a_new_process': 3}
                elif res['status'] == 'violation' and res['violation']['clause'] == clause:
                    n_before = len(campaign.flatten_history(unknown_bad['history'], spec['seed']))
                    hist, hres, used = campaign.minimise_history(unknown_bad['history'], spec, clause, parallel=workers)
                    if hres is not None:
                        res = hres
                    small = spec
                    stm_before = program.count_statements(spec)
                    if len(hist) <= 3:
                        # few earlier runs left: minimise the failing run and then each earlier run, always
                        # executing <earlier runs> + <failing run> together in a brand-new process
                        hist_specs = list(campaign._history_specs(hist, spec['seed']))
                        for h in hist_specs:
                            h['decisions'] = None if h['world'] == 'task' else h.get('decisions')

                        def exec_final(cands):
                            return campaign.run_fresh_histories([([['specs', hist_specs]], c) for c in cands], workers)

                        small2, res2, u2 = shrink.minimise(spec, clause, exec_final, budget=200, batch=workers)
                        used += u2
                        if res2 is not None:
                            small, res = small2, res2
                        for k in range(len(hist_specs)):

                            def exec_prior(cands, k=k):
                                cases = [([['specs', hist_specs[:k] + [c] + hist_specs[k + 1 :]]], small) for c in cands]
                                return campaign.run_fresh_histories(cases, workers)

                            hk, resk, uk = shrink.minimise(hist_specs[k], clause, exec_prior, budget=120, batch=workers)
                            used += uk
                            if resk is not None:
                                hist_specs[k], res = hk, resk
                        hist = [['specs', hist_specs]]
                        spec = small
                    record = {'version': 1, 'property': PROPERTY, 'seed': spec['seed'], 'spec': spec, 'history': hist, 'violation': res['violation'], 'digest': res['digest'], 'tree': tree,
                              'note': 'the violation needs process state left behind by earlier runs; the replay re-executes them first, in a fresh interpreter'}
                    n_after = sum(len(h[1]) if h[0] == 'specs' else len(h[4]) for h in hist)
                    minimised = {'statements_before': stm_before, 'statements_after': program.count_statements(spec), 'history_runs_before': n_before, 'history_runs_after': n_after,
                                 'history_statements_after': sum(program.count_statements(h) for e in hist if e[0] == 'specs' for h in e[1]), 'executions_each_in_a_new_process': used + 1}
                else:
                    unreproducible.append(f'UNREPRODUCIBLE: a violation (clause {clause}, seed {spec["seed"]}, {json.dumps(v["detail"], default=str)[:300]}) was observed once but neither the run alone nor its worker history reproduces it in a brand-new process')
                    violations = 0
                    record = None
                    small = spec
            if record is not None:
                hit = match_known(known, record['violation'], small)
                replay_path = base + '.json'
                with open(replay_path, 'w') as f:
                    json.dump(record, f, indent=1, default=str)
                out(f'minimised: {json.dumps(minimised)}')
                out('minimal programs: ' + json.dumps(small['programs']) + (' cancels: ' + json.dumps(small['cancels']) if small.get('cancels') else ''))
                for e in record.get('history', []):
                    if e[0] == 'specs':
                        for h in e[1]:
                            out('  after earlier run: ' + json.dumps(h['programs']))
                out('violation: ' + json.dumps(record['violation'], default=str)[:1500])
                if hit is not None:
                    known_hits.append((hit, unknown_bad))
                    violations = 0
                else:
                    rc = 1


    # A violation that cannot be reproduced in a brand-new process (it depended on memory addresses or on
    # state a broken implementation left in its worker) is not a verdict: the campaign goes on with the
    # chunks that have not run yet, looking for one that can be replayed; if none turns up the check ends
    # with exit 2, never 0.
    for _attempt in range(4):
        settle()
        if rc == 1 or unknown_bad is None or harness_problem is not None:
            break
        if not unreproducible or len(unreproducible) <= _attempt:
            break
        out(unreproducible[-1])
        if _attempt == 0:
            # look for a self-contained instance first: runs that create, apply and release many inverses
            # (or keep many alive), each as the first and only run of a brand-new process
            probes = []
            for k in range(2 * workers):
                prof = {'faults': False, 'p_heavy': 1.0 if k % 4 else 0.0, 'p_thread': 0.7, 'force': 'churn' if k % 2 else 'hoard'}
                probes.append(program.generate(campaign.run_seed_of(verif_seed, 'probe', k), prof))
            results = campaign.run_fresh(probes, parallel=workers)
            hit = next(((sp, r) for sp, r in zip(probes, results) if r['status'] == 'violation'), None)
            out(f'note: {len(probes)} self-contained probe runs (many inverses created, applied, released) in brand-new processes: ' + ('one of them violates the property' if hit else 'all clean'))
            if hit is not None:
                sp, r = hit
                sp['decisions'] = r.get('decisions')
                unknown_bad = {'spec': sp, 'result': r, 'sub': 'probe', 'index': 0, 'history': []}
                continue
        if not tasks or _attempt == 3:
            break
        out(f'note: continuing with the {len(tasks)} chunk(s) that have not run yet')
        unknown_bad = None
        pool = campaign.make_pool(workers)
        try:
            explore()
        finally:
            campaign.kill_pool(pool)
    run_wall = time.time() - t_start
    if unreproducible and rc != 1 and harness_problem is None:
        harness_problem = unreproducible[0]

    printed: set = set()
    for hit, bad in known_hits:
        line = f'KNOWN-FINDING: property={PROPERTY} {hit.get("what", hit)}'
        if line not in printed:
            printed.add(line)
            out(line)

    if harness_problem is None and deferred_problem is not None and rc != 1:
        harness_problem = deferred_problem
    elif deferred_problem is not None:
        out('note: ' + deferred_problem)
    if harness_problem is not None:
        out(harness_problem)
        rc = 2

    write_evidence(tier, verif_seed, total, determinism, tree, time.time() - t_start, violations, minimised, workers, run_wall, worker_crashes)
    runs = total['runs']
    out(
        f'runs={runs} ({runs / max(run_wall, 1e-9) * 3600:.0f}/h) interleavings={len(total["interleavings"])} nontrivial={len(total["nontrivial"])} '
        f'states={len(total["states"])} faults={dict(total["faults"])} wall={time.time() - t_start:.1f}s'
    )
    zero = [p for p in REQUIRED_PROBES if total['probes'].get(p, 0) == 0]
    if zero and rc == 0 and tier != 'smoke':
        out(f'note: reach probes at zero in this campaign: {zero}')
    if total['cut_short'] and rc == 0:
        out(f'note: {total["cut_short"]} chunk(s) cut short by the wall cap; counts in the evidence are what actually ran')
    if rc == 1:
        out(f'VIOLATION property={PROPERTY} replay={replay_path}')
    return rc


REQUIRED_PROBES = [
    'depth_ge_3',
    'depth_ge_10',
    'one_exception_unwound_2_blocks',
    'one_exception_unwound_5_blocks',
    'prebuilt_entered_under_other_config',
    'construct_only_inside_block',
    'spawn_inside_block_threadctx',
    'spawn_inside_block_taskfresh',
    'parked_in_callback_while_others_ran',
    'jit_closure_reused_under_other_config',
    'preempted:__enter__:+2',
    'preempted:__init__:+2',
    'raise_at_depth_ge_2',
    'caught_mid_stack_and_continued',
    'exit_by_base_exception',
    'switch_with_two_actors_in_blocks',
    'apply_by_non_creator',
    'apply_under_other_config',
    'apply_after_creator_ended',
    'apply_failure_inside_block',
    'cancel_at_depth_ge_2',
    'cancel_caught_and_uncancelled',
    'timeout_inside_block',
    'spawn_inside_block_task',
    'spawn_inside_block_thread',
    'ctxrun_left_by_exception',
    'to_thread_snapshot_inside_block',
    'call_soon_snapshot_inside_block',
    'roundtrip_under_other_config',
    'badconfig_inside_block',
    'create_nested',
    'line:__enter__',
    'line:__exit__',
    'line:__init__',
    'line:instance',
    'line:mv',
]


def write_evidence(tier, verif_seed, total, determinism, tree, wall, violations, minimised, workers, run_wall, worker_crashes=0) -> None:
    runs = total['runs']
    samples = []
    for k, s in enumerate(total['samples'][:3]):
        if k == 0:
            # written-out history of the first sample: the run is re-executed here from its recorded
            # decisions (same digest) with the event log kept
            try:
                from sim import runner

                again = dict(s['spec'])
                again['decisions'] = s['decisions']
                res = runner.run_spec(again, keep_events=True)
                s = dict(s, history_excerpt=res['events'][:60], history_events=res['n_events'], history_digest_matches=res['digest'] == s['digest'])
            except Exception as exc:  # never let the illustration break the evidence
                s = dict(s, history_excerpt=[f'unavailable: {exc!r}'])
        samples.append({'sub_campaign': s['sub'], 'run_seed': s['spec']['seed'], 'world': s['spec']['world'], 'swarm': s['spec']['swarm'], 'programs': s['spec']['programs'], 'cancels': s['spec']['cancels'], 'decisions': s['decisions'], 'digest': s['digest'],
                        **({'history_excerpt': s['history_excerpt'], 'history_events': s.get('history_events'), 'history_digest_matches': s.get('history_digest_matches')} if 'history_excerpt' in s else {})})
    evidence = {
        'property_id': PROPERTY,
        'tier': 'thorough' if tier == 'thorough' else 'quick',
        'seed': verif_seed,
        'level': 'exploration',
        'wall_s': round(wall, 2),
        'violations': violations,
        'coverage': {
            'evaluations': runs,
            'distinct_nontrivial': len(total['nontrivial']),
            'rule': (
                'One evaluation = one simulated run: a seeded swarm configuration, 1-4 generated actor programs (plus spawned actors) '
                'executed against the real furax Config / InverseOperator code under a seeded scheduler (thread world: baton-passing real '
                'threads, optional line-level pre-emption inside the library; task world: asyncio on a virtual-time loop) with injected faults. '
                'Distinct = distinct SHA-256 of the sequence of (actor, event kind, nesting depth) triples of the run. Non-trivial = the run had a '
                'context switch while two actors had open blocks, or at least one fired fault (not counting bad-kwarg probes), or at least one '
                'apply under an active configuration different from the captured one.'
            ),
            'samples': samples,
            'runs_per_hour': round(runs / max(run_wall, 1e-9) * 3600),
            'campaign_tier': tier,
            'workers': workers,
            'runs_by_sub_campaign': dict(total['by_sub']),
            'runs_by_world': dict(total['by_world']),
            'worker_seconds_by_sub_campaign': {k: round(v, 1) for k, v in total['wall_by_sub'].items()},
            'heavy_runs_with_real_solves': total['heavy'],
            'fine_mode_runs': total['fine'],
            'statements_generated': total['stmts_total'],
            'statements_executed': total['stmts'],
            'fraction_statements_executed': round(total['stmts'] / max(1, total['stmts_total']), 4),
            'events_logged': total['events'],
            'scheduling_decisions': total['points'],
            'context_switches': total['switches'],
            'real_applies': total['applies'],
            'simulated_seconds_task_world': round(total['sim_seconds'], 3),
            'virtual_clock_jumps': total['clock_jumps'],
            'thread_world_time': 'logical steps only (scheduling_decisions); the thread world has no clock',
            'distinct_interleavings': len(total['interleavings']),
            'distinct_abstract_states': len(total['states']),
            'faults_fired': dict(total['faults']),
            'runs_in_which_fault_fired': dict(total['runs_with_fault']),
            'reach_probes': dict(sorted(total['probes'].items())),
            'reach_probes_at_zero': [p for p in REQUIRED_PROBES if total['probes'].get(p, 0) == 0],
            'determinism_selfcheck': determinism,
            'chunks_cut_short_by_wall_cap': total['cut_short'],
            'worker_processes_crashed_and_chunks_rerun': worker_crashes,
            'minimisation': minimised,
            'real_vs_stub': {
                'real': [
                    'furax._base.config (all)',
                    'furax InverseOperator.__init__/mv, .I / inverse(), BlockDiagonalOperator.inverse, composition/addition plumbing, reduce()',
                    'CPython with/try/raise, contextvars, threading.Thread, asyncio Task/timeout/to_thread/call_soon, Context.run',
                    'lineax linear_solve + CG, equinox error path, JAX eager/jit/filter_jit, jax.debug.callback (heavy runs)',
                ],
                'replaced': [
                    'OS thread scheduler -> baton passing, seeded choice at every yield point',
                    'asyncio clock/selector -> virtual-time loop',
                    'default executor behind to_thread -> inline executor (fresh real thread, joined)',
                    'sys.stdout -> fake stream (F5 seam)',
                    "name `lx` in furax._base.core -> pass-through proxy (F4 seam)",
                    'solver callbacks -> tagged harness closures (library default callback used in stdout-fault runs)',
                ],
                'absent': 'furax has no clock, network, disk or peer: nothing of that kind is simulated',
            },
            'tree': tree,
        },
        'assumptions': [
            'CPU backend, CPython %d.%d, this contextvars/asyncio' % sys.version_info[:2],
            'jax.debug.callback runs on the applying thread on CPU (asserted per run: an orphan callback is a harness error)',
            'the direct-lineax expectation table is the oracle for step counts; it never touches furax.Config',
            'exploration: seeded search, not exhaustive; a clean campaign is evidence, not proof',
        ],
    }
    os.makedirs(os.path.dirname(EVIDENCE), exist_ok=True)
    tmp = EVIDENCE + '.tmp'
    with open(tmp, 'w') as f:
        json.dump(evidence, f, indent=1, default=str)
    os.replace(tmp, EVIDENCE)


def main() -> int:
    ap = argparse.ArgumentParser()
    ap.add_argument('--tier', default=os.environ.get('VERIF_TIER') or 'quick')
    ap.add_argument('--replay')
    ap.add_argument('--seed', type=int)
    ap.add_argument('--sub', default='light-faulty')
    ap.add_argument('--workers', type=int, default=int(os.environ.get('VERIF_WORKERS') or min(16, os.cpu_count() or 1)))
    args = ap.parse_args()
    if args.tier not in ('quick', 'thorough', 'smoke'):
        args.tier = 'quick'
    env.pin_environment()
    env.reexec_with_hashseed()
    if args.replay:
        return cmd_replay(args.replay)
    if args.seed is not None:
        return cmd_seed(args.seed, args.sub, args.tier)
    try:
        verif_seed = int(os.environ.get('VERIF_SEED') or 0)
    except ValueError:
        verif_seed = 0
    return cmd_campaign(args.tier, verif_seed, args.workers)


if __name__ == '__main__':
    try:
        code = main()
    except SystemExit:
        raise
    except BaseException:
        import traceback

        traceback.print_exc()
        sys.stderr.write('HARNESS-ERROR: the check itself crashed\n')
        code = 2
    sys.stdout.flush()
    os._exit(code) if code else sys.exit(0)
