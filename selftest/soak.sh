#!/bin/bash
# Soak: the quick (or given) tier under many VERIF_SEED values, on the unchanged tree.
# Evidence and replays are redirected to a scratch directory so that nothing committed is touched.
#   selftest/soak.sh FIRST LAST [TIER]
# Prints one line per seed; any rc other than 0 is a false alarm or a harness defect to look at.
cd "$(dirname "$0")/.."
out=$(mktemp -d /tmp/furax-soak-XXXXXX)
tier=${3:-quick}
for s in $(seq "$1" "$2"); do
  VERIF_SEED=$s VERIF_EVIDENCE=$out/ev.json VERIF_REPLAYS=$out/replays timeout 7200 /venv/bin/python checks/c19.py --tier "$tier" > "$out/seed_$s.log" 2>&1
  rc=$?
  echo "seed=$s rc=$rc crashes_retried=$(grep -c 'note: a worker' "$out/seed_$s.log") $(grep '^runs=' "$out/seed_$s.log" | cut -c1-60)"
  if [ $rc -ne 0 ]; then grep -v '^  File\|^    ' "$out/seed_$s.log" | tail -25; fi
done
echo "logs in $out"
