#!/venv/bin/python
"""Determinism proof (DESIGN.md 3.4): the same run seeds executed

  (a) spread over 16 spawned workers in small chunks,
  (b) spread over 3 workers in large chunks (other process histories),
  (c) in fresh interpreters under another PYTHONHASHSEED,

must give pairwise identical event-log digests (and identical abstract-state sets).

    python selftest/determinism.py [--n 400] [--seed 0] [--tier quick]
"""

from __future__ import annotations

import argparse
import os
import sys
import time

ROOT = os.path.dirname(os.path.dirname(os.path.abspath(__file__)))
sys.path.insert(0, ROOT)

from sim import env  # noqa: E402


def main() -> int:
    ap = argparse.ArgumentParser()
    ap.add_argument('--n', type=int, default=400)
    ap.add_argument('--seed', type=int, default=0)
    ap.add_argument('--tier', default='quick')
    ap.add_argument('--base', type=int, default=20_000_000)
    ap.add_argument('--subs', nargs='*')
    args = ap.parse_args()
    env.pin_environment()
    env.reexec_with_hashseed()
    env.setup()
    from sim import campaign

    subs = args.subs or list(campaign.SUBS)
    items = [(subs[j % len(subs)], args.base + j) for j in range(args.n)]
    t0 = time.time()

    def spread(workers: int, chunk: int) -> dict:
        pool = campaign.make_pool(workers)
        try:
            futs = []
            for k in range(0, len(items), chunk):
                futs.append(pool.submit(campaign.digest_chunk, (args.seed, args.tier, items[k : k + chunk], True)))
            out = {}
            for f in futs:
                for sub, i, digest, status, extra in f.result(timeout=3600):
                    out[(sub, i)] = (digest, status, extra)
            return out
        finally:
            campaign.kill_pool(pool)

    a = spread(16, 5)
    print(f'(a) 16 workers x chunks of 5: {len(a)} runs, {time.time() - t0:.1f}s', flush=True)
    b = spread(3, max(1, len(items) // 3 + 1))
    print(f'(b) 3 workers x large chunks: {len(b)} runs, {time.time() - t0:.1f}s', flush=True)
    c = {}
    step = max(1, len(items) // 8 + 1)
    import concurrent.futures

    with concurrent.futures.ThreadPoolExecutor(8) as tp:
        futs = [
            tp.submit(campaign.fresh_interpreter_digests, args.seed, args.tier, [list(x) for x in items[k : k + step]], str(1000 + k), True)
            for k in range(0, len(items), step)
        ]
        for f in futs:
            for sub, i, digest, status, extra in f.result():
                c[(sub, i)] = (digest, status, extra)
    print(f'(c) fresh interpreters, other PYTHONHASHSEED: {len(c)} runs, {time.time() - t0:.1f}s', flush=True)
    bad = 0
    statuses: dict = {}
    for key in items:
        x, y, z = a[key], b[key], c[key]
        statuses[x[1]] = statuses.get(x[1], 0) + 1
        if not (x == y == z) or str(x[0]).startswith('REPLAY-MISMATCH'):
            bad += 1
            if bad <= 10:
                print('MISMATCH', key, x, y, z)
    print(f'runs={len(items)} statuses={statuses} mismatches={bad}')
    print('DETERMINISM', 'PASS' if bad == 0 else 'FAIL')
    return 0 if bad == 0 else 1


if __name__ == '__main__':
    sys.exit(main())
