#!/venv/bin/python
"""Backs the not-applicable verdicts mechanically (supporting artefact, NOT a registered check).

Runs the repository's own test-suite (the widest available workload over the entry points the
properties C01-C18 and C20 are anchored in) with audit/furax_seam_audit.py loaded, which records
every clock read, sleep, thread start, lock creation, socket, subprocess, file open, global-entropy
draw or event-loop creation whose nearest non-library frame is furax source code.

Expected (what reading the code predicts): nothing outside `_base/config.py` (the ContextVar is not
even an audited seam), `InverseOperator.mv`'s default callback `print`, and the `np.load` in
`toast/obs_matrix.py`.  The result is written to audit/na_audit_result.json.

    python audit/na_audit.py
"""

from __future__ import annotations

import json
import os
import subprocess
import sys
import tempfile

HERE = os.path.dirname(os.path.abspath(__file__))


def main() -> int:
    out = os.path.join(tempfile.mkdtemp(prefix='furax-audit-'), 'audit.json')
    env = dict(os.environ)
    env['PYTHONPATH'] = HERE + os.pathsep + '/repo/src'
    env['FURAX_AUDIT_OUT'] = out
    cmd = [sys.executable, '-m', 'pytest', '-q', '-p', 'no:cacheprovider', '-p', 'furax_seam_audit', '--timeout=900', '--continue-on-collection-errors']
    proc = subprocess.run(cmd, cwd='/repo', env=env, capture_output=True, text=True)
    tail = proc.stdout.strip().splitlines()[-1] if proc.stdout.strip() else ''
    with open(out) as f:
        result = json.load(f)
    result['suite'] = tail
    result['grep_static'] = static_scan()
    dest = os.path.join(HERE, 'na_audit_result.json')
    with open(dest, 'w') as f:
        json.dump(result, f, indent=1)
    print(json.dumps(result, indent=1))
    os.remove(out)
    os.rmdir(os.path.dirname(out))
    return 0


def static_scan() -> dict:
    """Imports and attribute uses of concurrency / time / I/O modules anywhere in src/furax."""
    import re

    pat = re.compile(r'\b(import|from)\s+(threading|asyncio|time|socket|subprocess|multiprocessing|concurrent|queue|select|signal|random|secrets|tempfile|contextvars|functools)\b')
    hits: dict[str, list[str]] = {}
    for root, _, files in os.walk('/repo/src/furax'):
        for name in files:
            if name.endswith('.py'):
                path = os.path.join(root, name)
                with open(path) as f:
                    for n, line in enumerate(f, 1):
                        if pat.search(line):
                            hits.setdefault(os.path.relpath(path, '/repo/src'), []).append(f'{n}: {line.strip()}')
    return hits


if __name__ == '__main__':
    sys.exit(main())
