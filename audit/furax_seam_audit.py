"""pytest plugin used by audit/na_audit.py: records every nondeterminism / I/O seam event whose
nearest non-library frame is furax source code (what JAX, lineax, NumPy or healpy do internally on
furax's behalf is theirs)."""

from __future__ import annotations

import json
import os
import sys
import sysconfig
import threading
from collections import Counter

SRC = os.path.realpath(os.environ.get('FURAX_SRC', '/repo/src'))
OUT = os.environ.get('FURAX_AUDIT_OUT', '/tmp/furax_audit.json')
STDLIB = os.path.realpath(sysconfig.get_paths()['stdlib'])
PURELIB = os.path.realpath(sysconfig.get_paths()['purelib'])
HERE = os.path.realpath(os.path.dirname(__file__))

events: Counter = Counter()
_busy = threading.local()

AUDITED = {
    'open', 'socket.connect', 'socket.bind', 'socket.__new__', 'subprocess.Popen', 'os.system', 'os.fork',
    'os.exec', 'os.posix_spawn', 'os.listdir', 'os.scandir', 'os.remove', 'os.rename', 'os.mkdir',
    'shutil.copyfile', 'tempfile.mkstemp', 'tempfile.mkdtemp', 'urllib.Request', 'ctypes.dlopen',
    'time.sleep', '_thread.start_new_thread',
}


def _attribute() -> str | None:
    """Nearest frame that is neither stdlib, site-packages nor this plugin; furax frame -> 'file:func'."""
    f = sys._getframe(2)
    while f is not None:
        name = os.path.realpath(f.f_code.co_filename) if not f.f_code.co_filename.startswith('<') else f.f_code.co_filename
        if name.startswith(STDLIB) or name.startswith(HERE) or name.startswith('<'):
            f = f.f_back
            continue
        if name.startswith(SRC + os.sep):
            return f'{os.path.relpath(name, SRC)}:{f.f_code.co_name}'
        return None
    return None


def _record(kind: str) -> None:
    if getattr(_busy, 'on', False):
        return
    _busy.on = True
    try:
        where = _attribute()
        if where is not None:
            events[f'{kind} @ {where}'] += 1
    finally:
        _busy.on = False


def _hook(event, args):
    if event in AUDITED or event.startswith('socket.'):
        _record('audit:' + event)


def _wrap(mod, name, kind):
    orig = getattr(mod, name)

    def wrapper(*a, **k):
        _record(kind)
        return orig(*a, **k)

    wrapper.__name__ = getattr(orig, '__name__', name)
    wrapper.__wrapped__ = orig  # type: ignore[attr-defined]
    setattr(mod, name, wrapper)


def pytest_configure(config):
    import asyncio
    import random
    import time

    import numpy.random as npr

    sys.addaudithook(_hook)
    for name in ('time', 'time_ns', 'monotonic', 'monotonic_ns', 'perf_counter', 'perf_counter_ns', 'sleep'):
        _wrap(time, name, 'clock:time.' + name)
    for name in ('random', 'seed', 'randint', 'choice', 'shuffle', 'uniform', 'getrandbits'):
        _wrap(random, name, 'entropy:random.' + name)
    for name in ('seed', 'rand', 'randn', 'randint', 'random', 'normal', 'uniform', 'choice', 'shuffle', 'permutation'):
        _wrap(npr, name, 'entropy:numpy.random.' + name)
    _wrap(os, 'urandom', 'entropy:os.urandom')
    _wrap(threading.Thread, 'start', 'thread:Thread.start')
    _wrap(asyncio, 'new_event_loop', 'asyncio:new_event_loop')
    _wrap(asyncio, 'run', 'asyncio:run')
    _wrap(threading, 'Lock', 'lock:threading.Lock')
    _wrap(threading, 'RLock', 'lock:threading.RLock')


def pytest_sessionfinish(session, exitstatus):
    with open(OUT, 'w') as f:
        json.dump({'events_from_furax_frames': dict(sorted(events.items())), 'src': SRC}, f, indent=1)
