"""Baton-passing scheduler for real threads, strategies, decision log, line monitor.

Exactly one actor thread holds the baton.  At every yield point the holder asks the
scheduler who runs next; the answer comes from the run PRNG (or, on replay, from the
recorded decision list) and is appended to `record`.  The main thread only starts
the first actor and then waits (watchdog) for the last one to finish.
"""

from __future__ import annotations

import faulthandler
import random
import sys
import threading
from typing import Any, Callable

MAX_POINTS = 200_000


class Abort(BaseException):
    """Unwinds an actor after the run was stopped (violation found or harness error)."""


class HarnessError(Exception):
    """Something went wrong in the machinery itself; never reported as a violation."""


class Stall(HarnessError):
    pass


class Slot:
    """Scheduling state of one actor."""

    def __init__(self, aid: int):
        self.aid = aid
        self.sem = threading.Semaphore(0)
        self.done = False
        self.started = False
        self.blocked_on: 'Slot | None' = None
        self.priority = 0.0
        self.local = 0  # number of yield points this actor has passed


class Scheduler:
    def __init__(self, rng: random.Random, swarm: dict, decisions: list[int] | None, est_points: int, switches: list | None = None):
        self.rng = rng
        self.strategy = swarm.get('strategy', 'random')
        self.p_switch = swarm.get('p_switch', 0.3)
        self.p_line = swarm.get('p_line', 0.1)
        # per-bytecode points are ~5x denser than per-line points
        self.p_line_eff = self.p_line / 5 if swarm.get('ultra') else self.p_line
        self.replay = list(decisions) if decisions is not None else None
        self.pos = 0
        self.record: list[int] = []
        # Second replay format, used while minimising: only the real hand-overs, each as
        # [actor, that actor's own yield-point count, next actor].  Deleting statements of *other*
        # actors does not move these positions, unlike positions in the flat decision list.
        self.sw_replay = [list(x) for x in switches] if (switches is not None and decisions is None) else None
        self.sw_pos = 0
        self.switch_log: list = []
        self.slots: dict[int, Slot] = {}
        self.abort = False
        self.points = 0
        self.switches = 0
        self.current: Slot | None = None
        self.all_done = threading.Semaphore(0)
        self.low_priority = 0.0
        self.change_points: set[int] = set()
        if self.strategy == 'pct' and self.replay is None and self.sw_replay is None:
            for _ in range(swarm.get('pct_depth', 1)):
                self.change_points.add(rng.randint(1, max(2, est_points)))

    # ------------------------------------------------------------------ registration
    def register(self, aid: int) -> Slot:
        slot = Slot(aid)
        if self.replay is None and self.sw_replay is None and self.strategy == 'pct':
            slot.priority = self.rng.random() + 1.0
        self.slots[aid] = slot
        return slot

    def runnable(self) -> list[Slot]:
        out = []
        for aid in sorted(self.slots):
            s = self.slots[aid]
            if s.done:
                continue
            if s.blocked_on is not None and not s.blocked_on.done:
                continue
            out.append(s)
        return out

    # ------------------------------------------------------------------ choice
    def _choose(self, me: Slot | None, runnable: list[Slot], kind: str) -> Slot:
        me_ok = me is not None and me in runnable
        if self.replay is not None:
            if self.pos < len(self.replay):
                want = self.replay[self.pos]
                self.pos += 1
                for s in runnable:
                    if s.aid == want:
                        return s
            return me if me_ok else runnable[0]
        if self.sw_replay is not None:
            return self._choose_by_switches(me, runnable, me_ok)
        rng = self.rng
        if len(runnable) == 1:
            return runnable[0]
        if self.strategy == 'pct':
            if self.points in self.change_points and me_ok:
                self.low_priority -= 1.0
                me.priority = self.low_priority
            return max(runnable, key=lambda s: s.priority)
        if not me_ok:
            return rng.choice(runnable)
        if kind == 'line':
            if rng.random() < self.p_line_eff:
                others = [s for s in runnable if s is not me]
                return rng.choice(others)
            return me
        if self.strategy == 'boundary':
            if kind in ('enter', 'pre-exit', 'post-create', 'post-spawn', 'cb'):
                return rng.choice(runnable)
            return me
        if rng.random() < self.p_switch:
            return rng.choice(runnable)
        return me

    def _choose_by_switches(self, me: Slot | None, runnable: list[Slot], me_ok: bool) -> Slot:
        log = self.sw_replay
        # drop entries that can no longer fire (their actor is done, or already past that point)
        while self.sw_pos < len(log):
            aid, local, _ = log[self.sw_pos]
            slot = self.slots.get(aid)
            if slot is not None and (slot.done or slot.local > local):
                self.sw_pos += 1
            else:
                break
        entry = log[self.sw_pos] if self.sw_pos < len(log) else None
        if me_ok:
            if entry is not None and entry[0] == me.aid and entry[1] == me.local:
                self.sw_pos += 1
                for s in runnable:
                    if s.aid == entry[2] and s is not me:
                        return s
            return me
        # the holder cannot go on (finished or joining): prefer the actor the next entry waits for
        if entry is not None:
            for s in runnable:
                if s.aid == entry[0]:
                    return s
        return runnable[0]

    # ------------------------------------------------------------------ yield points
    def point(self, me: Slot, kind: str, before_park=None) -> bool:
        """A yield point of the baton holder.  Returns True if another actor ran meanwhile.

        `before_park` is called only when the baton is really handed over, right before parking."""
        if self.abort:
            raise Abort()
        self.points += 1
        me.local += 1
        if self.points > MAX_POINTS:
            self.abort = True
            raise HarnessError('scheduling point budget exceeded')
        runnable = self.runnable()
        if not runnable:
            self.abort = True
            raise HarnessError('no runnable actor at a yield point (deadlock in the harness)')
        nxt = self._choose(me, runnable, kind)
        self.record.append(nxt.aid)
        if nxt is me:
            return False
        if before_park is not None:
            before_park()
        self.switch_log.append([me.aid, me.local, nxt.aid])
        self.switches += 1
        self.current = nxt
        nxt.sem.release()
        me.sem.acquire()
        if self.abort:
            raise Abort()
        return True

    def yield_to_other(self, me: Slot) -> None:
        """The holder cannot go on right now (a cooperative lock is taken): someone else must run."""
        if self.abort:
            raise Abort()
        self.points += 1
        me.local += 1
        if self.points > MAX_POINTS:
            self.abort = True
            raise HarnessError('scheduling point budget exceeded')
        others = [s for s in self.runnable() if s is not me]
        if not others:
            self.abort = True
            raise HarnessError('a lock is held and nobody else can run (deadlock in the code under test or the harness)')
        if self.replay is not None and self.pos < len(self.replay):
            want = self.replay[self.pos]
            self.pos += 1
            nxt = next((s for s in others if s.aid == want), others[0])
        elif self.replay is not None or self.sw_replay is not None:
            nxt = others[0]
        else:
            nxt = self.rng.choice(others)
        self.record.append(nxt.aid)
        self.switch_log.append([me.aid, me.local, nxt.aid])
        self.switches += 1
        self.current = nxt
        nxt.sem.release()
        me.sem.acquire()
        if self.abort:
            raise Abort()

    def wait_turn(self, me: Slot) -> None:
        """First thing an actor thread does."""
        me.sem.acquire()
        me.started = True
        if self.abort:
            raise Abort()

    def finish(self, me: Slot) -> None:
        """Last thing an actor thread does (also on abort)."""
        me.done = True
        if self.abort:
            rest = [self.slots[a] for a in sorted(self.slots) if not self.slots[a].done]
            if rest:
                self.current = rest[0]
                rest[0].sem.release()
            else:
                self.all_done.release()
            return
        runnable = self.runnable()
        if not runnable:
            if any(not s.done for s in self.slots.values()):
                self.abort = True
                rest = [self.slots[a] for a in sorted(self.slots) if not self.slots[a].done]
                self.current = rest[0]
                rest[0].sem.release()
                return
            self.all_done.release()
            return
        self.points += 1
        nxt = self._choose(None, runnable, 'finish')
        self.record.append(nxt.aid)
        self.switches += 1
        self.current = nxt
        nxt.sem.release()

    # ------------------------------------------------------------------ main thread
    def start_and_wait(self, watchdog_s: float) -> None:
        runnable = self.runnable()
        if not runnable:
            return
        first = self._choose(None, runnable, 'start')
        self.record.append(first.aid)
        self.current = first
        first.sem.release()
        if not self.all_done.acquire(timeout=watchdog_s):
            self.abort = True
            try:
                faulthandler.dump_traceback(file=sys.stderr, all_threads=True)
            except Exception:  # pragma: no cover
                pass
            raise Stall(f'no progress within {watchdog_s}s (actor {self.current.aid if self.current else None})')


# ---------------------------------------------------------------------------------------------
# Line-level pre-emption (PEP 669).  Local LINE events on the code objects of the library's
# configuration functions only; nothing else in the process is slowed.
# ---------------------------------------------------------------------------------------------
_TOOL_ID = 3
tls = threading.local()
_handler: Callable[[Any, Any, int], None] | None = None
_installed: list = []
_tool_ready = False


def monitoring_available() -> bool:
    return hasattr(sys, 'monitoring')


def _on_line(code, line):
    actor = getattr(tls, 'actor', None)
    if actor is None or _handler is None:
        return None
    if getattr(tls, 'quiet', 0):
        return None
    tls.quiet = 1
    try:
        _handler(actor, code, line)
    except Abort:
        pass
    finally:
        tls.quiet = 0
    return None


def install_monitor(codes: list, handler: Callable[[Any, Any, int], None], instruction: bool = False) -> None:
    """Local LINE (or, `instruction=True`, per-bytecode INSTRUCTION) events on the given code objects."""
    global _handler, _tool_ready
    mon = sys.monitoring
    if not _tool_ready:
        mon.use_tool_id(_TOOL_ID, 'furax-dst')
        mon.register_callback(_TOOL_ID, mon.events.LINE, _on_line)
        mon.register_callback(_TOOL_ID, mon.events.INSTRUCTION, _on_line)
        _tool_ready = True
    _handler = handler
    events = mon.events.INSTRUCTION if instruction else mon.events.LINE
    for code in codes:
        mon.set_local_events(_TOOL_ID, code, events)
        _installed.append(code)


def uninstall_monitor() -> None:
    global _handler
    mon = sys.monitoring
    for code in _installed:
        mon.set_local_events(_TOOL_ID, code, 0)
    _installed.clear()
    _handler = None


def monitored_codes() -> list:
    """Code objects of every function of furax._base.config plus the inverse plumbing."""
    import types

    from furax._base import blocks as blocks_mod
    from furax._base import config as config_mod
    from furax._base import core as core_mod

    codes: list = []
    seen: set[int] = set()

    def add(code):
        if id(code) in seen:
            return
        seen.add(id(code))
        codes.append(code)
        for const in code.co_consts:
            if isinstance(const, types.CodeType):
                add(const)

    def add_callable(obj):
        fn = getattr(obj, '__func__', obj)
        fn = getattr(fn, '__wrapped__', fn)
        code = getattr(fn, '__code__', None)
        if code is not None:
            add(code)

    cfg_file = config_mod.__file__
    for name in sorted(vars(config_mod)):
        obj = vars(config_mod)[name]
        if isinstance(obj, types.FunctionType) and obj.__code__.co_filename == cfg_file:
            if name == 'default_solver_callback':
                continue
            add(obj.__code__)
        elif isinstance(obj, type) and getattr(obj, '__module__', None) == config_mod.__name__:
            for attr in sorted(vars(obj)):
                member = vars(obj)[attr]
                member = getattr(member, '__func__', member)
                if isinstance(member, types.FunctionType) and member.__code__.co_filename == cfg_file:
                    if attr in ('__str__', '__repr__', 'tree_flatten', 'tree_unflatten'):
                        continue
                    if member.__name__ == 'default_solver_callback':
                        # a class attribute (dataclass default), not configuration code; it runs inside
                        # compiled JAX computations where parking a thread is not safe
                        continue
                    add(member.__code__)
    add_callable(core_mod.InverseOperator.__init__)
    add_callable(core_mod.InverseOperator.mv)
    add_callable(core_mod.AbstractLinearOperator.inverse)
    add_callable(blocks_mod.BlockDiagonalOperator.inverse)
    return codes
