"""Reference model of C19, apply predictions, and the offline history checker.

Nothing in this module imports furax, jax or lineax: it consumes tags only.

* `entry_for_block` / `merge`: what a `with Config(**kw)` block makes active.
* `predict_apply`: what applying a handle must do, from the *captured* entries and the
  direct-lineax table only.
* `check_history`: re-executes a recorded event list against `RefConfig` and returns the
  first disagreement as `(clause, seq, detail)`; independent of the online shadow kept by
  the interpreter.
"""

from __future__ import annotations

from collections import Counter
from typing import Any

DEFAULT = {'solver': 'cg500', 'throw': False, 'options': 'dflt', 'callback': 'default'}
FIELDS = ('solver', 'throw', 'options', 'callback')
SNAPSHOT_MODES = ('task', 'ctxrun', 'callsoon', 'tothread', 'threadctx')
CLAUSES = ('S', 'R', 'D', 'K', 'U', 'I', 'N')


def delta_for_block(uid: int, kwspec: dict) -> dict:
    """Tags written by BLOCK `uid` with generator-level settings `kwspec`."""
    delta: dict[str, Any] = {}
    for name, val in kwspec.items():
        if name == 'solver':
            # 'u' / 'ug' / 'ub': a unique CG / GMRES / BiCGStab per block; 'cg40!': a fresh instance equal to
            # the palette value; else the palette value itself
            delta['solver'] = {'u': f'u{uid}', 'ug': f'g{uid}', 'ub': f'b{uid}'}.get(val, val.rstrip('!'))
        elif name == 'throw':
            delta['throw'] = bool(val)
        elif name == 'options':
            # 'S': the run-wide shared dict (tag P0), else a fresh dict tagged with the block's uid
            # 'Z': a literally empty dict (an explicit reset to the default value, and a falsy one)
            delta['options'] = 'P0' if val == 'S' else ('dflt' if val == 'Z' else f'{val}{uid}')
        elif name == 'callback':
            # 'k0'/'k1': two callback objects shared by all blocks of the run that use them
            delta['callback'] = {'u': f'c{uid}', 'D': 'default', 'R': f'r{uid}', 'k0': 'k0', 'k1': 'k1'}[val]
        else:
            raise ValueError(name)
    return delta


def merge(outer: dict, delta: dict) -> dict:
    new = dict(outer)
    new.update(delta)
    return new


def options_kind_of(tag: str) -> str:
    if tag == 'dflt':
        return 'E'
    return tag.rstrip('0123456789')


def diff(obs: dict, exp: dict) -> dict:
    return {f: [exp.get(f), obs.get(f)] for f in FIELDS if obs.get(f) != exp.get(f)}


def abstract_entry(entry: dict) -> tuple:
    cb = entry['callback']
    cbk = cb if cb == 'default' else cb[0]
    sv = entry['solver']
    svk = sv if sv[:2] in ('cg', 'gm', 'bi') else sv[0]
    return (svk, entry['throw'], options_kind_of(entry['options']), cbk)


# ----------------------------------------------------------------------------- apply prediction
def predict_apply(
    shape: str,
    ops: list[str],
    caps: list[dict],
    table: dict[str, list],
    exact: bool,
) -> dict:
    """Prediction from the captured entries.

    Returns {'fired': Counter of (tag, num, max) or None entries, 'raise': 'no'|'must'|'may',
    'tags': set of callback tags that may fire, 'strict': whether `fired` must match as a
    multiset (else only tags/max_steps are constrained)}.
    """
    fired: Counter = Counter()
    must = False
    may = False
    tags: set[str] = set()
    strict = exact and shape not in ('nested', 'pair')
    outer_max = None
    for i, (op, cap) in enumerate(zip(ops, caps)):
        tags.add(cap['callback'])
        if cap['callback'].startswith('r'):
            must = True
        if op == 'nested':
            outer_max = _max_steps(cap['solver'])
            if cap['throw']:
                may = True
            continue
        key = '|'.join((op, cap['solver'], options_kind_of(cap['options'])))
        row = table.get(key)
        if row is None:
            strict = False
            if cap['throw']:
                may = True
            continue
        num, mx, ok = row
        fired[(cap['callback'], num, mx)] += 1
        if cap['throw'] and (not exact or shape in ('pair', 'nested')):
            # the left inverse of a pair, an inverse nested inside another one, or an inverse inside a
            # reduced composite may solve for another right-hand side than the table's: with throw=True
            # it may raise, whatever the table says
            may = True
        if cap['throw'] and not ok:
            if exact and shape not in ('nested', 'pair') and num >= mx:
                must = True  # ran out of steps on exactly the table's problem: robust
            else:
                # a breakdown-type failure (not a step count) may depend on rounding, e.g. eager vs jit
                may = True
    return {
        'fired': fired,
        'raise': 'must' if must else ('may' if may else 'no'),
        'tags': tags,
        'strict': strict,
        'outer_max': outer_max,
    }


def _max_steps(solver_tag: str) -> int:
    for prefix, base in (('cg', 0), ('gm', 0), ('bi', 0), ('u', 1000), ('g', 2000), ('b', 3000)):
        rest = solver_tag[len(prefix) :]
        if solver_tag.startswith(prefix) and rest.isdigit():
            return base + int(rest)
    raise ValueError(solver_tag)


def _match_counts(obs: Counter, pred: Counter, tol: int, subset: bool) -> bool:
    """Multiset match of (tag, num_steps, max_steps) records, num_steps within `tol`."""
    left = list(pred.elements())
    for t, n, m in sorted(obs.elements()):
        hit = next((p for p in left if p[0] == t and p[2] == m and abs(p[1] - n) <= tol), None)
        if hit is None:
            return False
        left.remove(hit)
    return subset or not left


def judge_apply(pred: dict, raised: str | None, fired: list, fault_fired: bool, shape: str, caps: list[dict], mode: str = 'eager') -> str | None:
    """Compares an observed apply outcome with its prediction; returns a complaint or None.

    Step counts must equal the direct-lineax table's for eager applies; under jit / filter_jit the
    whole apply is one XLA computation and may round differently, so one step of slack is allowed there
    (what distinguishes configurations is five steps or more, or max_steps, which is exact)."""
    tol = 0 if mode == 'eager' else 1
    obs = Counter((t, n, m) for t, n, m in fired)
    obs_tags = {t for t, _, _ in fired}
    if not obs_tags <= pred['tags']:
        return f'callback(s) {sorted(obs_tags - pred["tags"])} fired, captured were {sorted(pred["tags"])}'
    # max_steps reported to a callback must be the captured solver's, whatever else happened
    by_tag = {}
    for cap in caps:
        by_tag.setdefault(cap['callback'], set()).add(_max_steps(cap['solver']))
    for t, n, m in fired:
        if t == 'default':
            continue
        if m not in by_tag.get(t, ()):
            return f'callback {t} saw max_steps={m}, captured solver(s) allow {sorted(by_tag.get(t, ()))}'
    expect_raise = pred['raise']
    if fault_fired:
        expect_raise = 'must'
    if raised is None and expect_raise == 'must':
        return 'apply returned although the captured settings (or an injected fault) make it raise'
    if raised is not None and expect_raise == 'no':
        return f'apply raised {raised} although the captured settings cannot raise'
    if raised is not None or fault_fired:
        if pred['strict'] and not _match_counts(obs, pred['fired'], tol, subset=True):
            return f'callbacks {sorted(obs.elements())} not among predicted {sorted(pred["fired"].elements())}'
        return None
    if pred['strict']:
        if not _match_counts(obs, pred['fired'], tol, subset=False):
            return f'callbacks {sorted(obs.elements())} != predicted {sorted(pred["fired"].elements())}'
    else:
        if shape == 'nested':
            outer = caps[0]['callback']
            n_outer = sum(1 for t, _, _ in fired if t == outer)
            inner_tags = {c['callback'] for c in caps[1:]}
            if outer not in inner_tags and n_outer != 1:
                return f'outer callback {outer} fired {n_outer} times'
            if not inner_tags <= obs_tags and raised is None:
                return f'inner callback(s) {sorted(inner_tags - obs_tags)} never fired'
        else:
            want = Counter(c['callback'] for c in caps)
            got = Counter(t for t, _, _ in fired)
            if want != got:
                return f'callback tags {sorted(got.elements())} != captured {sorted(want.elements())}'
    return None


# ----------------------------------------------------------------------------- reference model
class RefConfig:
    """Executable reference: a stack of settings per context."""

    def __init__(self, thread_inherits: bool = False):
        self.stacks: dict[str, list[dict]] = {}
        self.parent: dict[str, str | None] = {}
        self.owner: dict[str, str] = {}  # unique tag -> ctx that introduced it
        self.left: dict[str, set[str]] = {}  # ctx -> unique tags of blocks already exited
        self.captured: dict[int, list[dict]] = {}
        self.handle_meta: dict[int, dict] = {}
        self.prebuilt: dict[int, dict] = {}
        self.thread_inherits = thread_inherits

    def ctxnew(self, parent: str | None, new: str, mode: str) -> None:
        if parent is None or (mode == 'thread' and not self.thread_inherits) or mode in ('taskfresh', 'executor'):
            base = dict(DEFAULT)
        else:
            base = dict(self.stacks[parent][-1])
        self.stacks[new] = [base]
        self.parent[new] = parent if mode in SNAPSHOT_MODES or (mode == 'thread' and self.thread_inherits) else None
        self.left[new] = set()

    def top(self, ctx: str) -> dict:
        return self.stacks[ctx][-1]

    def base(self, ctx: str) -> dict:
        return self.stacks[ctx][0]

    def enter(self, ctx: str, uid: int, kwspec: dict, entry: dict | None = None) -> dict:
        delta = delta_for_block(uid, kwspec)
        for f, tag in delta.items():
            if isinstance(tag, str) and tag not in ('default', 'P0', 'k0', 'k1') and tag[-1].isdigit() and tag[:2] not in ('cg', 'gm', 'bi'):
                self.owner[tag] = ctx
        new = merge(self.top(ctx), delta) if entry is None else dict(entry)
        self.stacks[ctx].append(new)
        return new

    def exit(self, ctx: str) -> dict:
        gone = self.stacks[ctx].pop()
        for f in ('solver', 'options', 'callback'):
            tag = gone[f]
            if self.owner.get(tag) == ctx and all(e[f] != tag for e in self.stacks[ctx]):
                self.left[ctx].add(tag)
        return self.top(ctx)

    def lineage(self, ctx: str) -> set[str]:
        out = set()
        cur: str | None = ctx
        while cur is not None:
            out.add(cur)
            cur = self.parent.get(cur)
        return out

    def classify(self, ctx: str, site: str, obs: dict, exp: dict) -> str:
        """Clause of a field mismatch observed in `ctx` at a check site (DESIGN.md 3.5)."""
        line = self.lineage(ctx)
        for f in ('solver', 'options', 'callback'):
            if obs.get(f) != exp.get(f):
                own = self.owner.get(obs.get(f))
                if own is not None and own not in line:
                    return 'I'
        if site in ('S', 'read'):
            for f in ('solver', 'options', 'callback'):
                if obs.get(f) != exp.get(f) and obs.get(f) in self.left.get(ctx, ()):
                    return 'R'
            return 'S'
        return site


def check_history(events: list, table: dict[str, list], thread_inherits: bool = False):
    """Offline refinement check.  Returns None or (clause, seq, detail)."""
    ref = RefConfig(thread_inherits)

    def bad(clause, seq, detail):
        return (clause, seq, detail)

    for ev in events:
        seq, aid, ctx, kind, d = ev
        if kind == 'ctxnew':
            ref.ctxnew(d['parent'], d['new'], d['mode'])
        elif kind == 'start':
            exp = ref.top(ctx)
            if d['obs'] != exp:
                return bad('I', seq, {'site': 'start', 'diff': diff(d['obs'], exp)})
        elif kind == 'prebuild':
            exp = ref.top(ctx)
            if d['obs'] != exp:
                return bad(ref.classify(ctx, 'S', d['obs'], exp), seq, {'site': 'prebuild', 'diff': diff(d['obs'], exp)})
            ref.prebuilt[d['uid']] = dict(exp)
        elif kind == 'enter':
            if d.get('pre'):
                # a prebuilt Config object: resolved against the construction-time or the entry-time
                # configuration, both accepted
                delta = delta_for_block(d['uid'], d['kw'])
                alts = [merge(ref.prebuilt.pop(d['uid']), delta), merge(ref.top(ctx), delta)]
                chosen = next((a for a in alts if a == d['c']), alts[-1])
                exp = ref.enter(ctx, d['uid'], d['kw'], chosen)
            else:
                exp = ref.enter(ctx, d['uid'], d['kw'])
            for name in ('c', 'inst'):
                if d[name] != exp:
                    return bad(ref.classify(ctx, 'S', d[name], exp), seq, {'site': 'enter:' + name, 'diff': diff(d[name], exp)})
        elif kind == 'exit':
            exp = ref.exit(ctx)
            if d['obs'] != exp:
                return bad(ref.classify(ctx, 'R', d['obs'], exp), seq, {'site': 'exit', 'how': d['how'], 'diff': diff(d['obs'], exp)})
        elif kind == 'read':
            exp = ref.top(ctx)
            if d['obs'] != exp:
                return bad(ref.classify(ctx, 'read', d['obs'], exp), seq, {'site': 'read:' + d.get('why', ''), 'diff': diff(d['obs'], exp)})
        elif kind == 'create':
            exp_caps = [ref.top(ctx)] * d['fresh'] + [c for h in d.get('inner', []) for c in ref.captured[h]]
            if d['caps'] is not None and d['caps'] != exp_caps:
                return bad('K', seq, {'site': 'create', 'caps': d['caps'], 'expected': exp_caps})
            ref.captured[d['h']] = exp_caps
            ref.handle_meta[d['h']] = {'shape': d['shape'], 'ops': d['ops'], 'exact': d['exact']}
        elif kind == 'derive':
            exp_caps = ref.captured[d['src']] + (ref.captured[d['src2']] if d.get('src2') is not None else [])
            same = d['caps'] == exp_caps
            if d['caps'] is not None and d['kind'].startswith('transpose'):
                key = lambda c: repr(sorted(c.items()))  # noqa: E731 - order may be reversed by a transpose
                same = sorted(map(key, d['caps'])) == sorted(map(key, exp_caps))
            if d['caps'] is not None and not same:
                return bad('K', seq, {'site': 'derive:' + d['kind'], 'caps': d['caps'], 'expected': exp_caps})
            if d['h'] is not None:  # None: a structural check only (transpose), no new handle
                ref.captured[d['h']] = exp_caps
                ref.handle_meta[d['h']] = {'shape': d['shape'], 'ops': d['ops'], 'exact': d['exact']}
        elif kind == 'apply':
            caps = ref.captured[d['h']]
            meta = ref.handle_meta[d['h']]
            pred = predict_apply(meta['shape'], meta['ops'], caps, table, meta['exact'])
            complaint = judge_apply(pred, d['raised'], d['fired'], d['fault_fired'], meta['shape'], caps, d.get('mode', 'eager'))
            if complaint:
                return bad('U', seq, {'site': 'apply', 'why': complaint})
            if d['caps_after'] is not None and d['caps_after'] != caps:
                return bad('U', seq, {'site': 'apply:captured-mutated', 'caps': d['caps_after'], 'expected': caps})
            exp = ref.top(ctx)
            if d['obs'] != exp:
                return bad(ref.classify(ctx, 'U', d['obs'], exp), seq, {'site': 'apply:active-changed', 'diff': diff(d['obs'], exp)})
        elif kind == 'bad':
            exp = ref.top(ctx)
            if d['obs'] != exp:
                return bad(ref.classify(ctx, 'N', d['obs'], exp), seq, {'site': 'badconfig', 'diff': diff(d['obs'], exp)})
        elif kind == 'noenter':
            exp = ref.top(ctx)
            if d['obs'] != exp:
                return bad(ref.classify(ctx, 'S', d['obs'], exp), seq, {'site': 'noenter', 'diff': diff(d['obs'], exp)})
        elif kind == 'construct':
            exp = ref.top(ctx)
            if d['obs'] != exp:
                return bad(ref.classify(ctx, 'S', d['obs'], exp), seq, {'site': 'construct', 'diff': diff(d['obs'], exp)})
        elif kind == 'ctxend':
            # a copied context has run to its end: back at its snapshot
            exp = ref.base(ctx)
            if len(ref.stacks[ctx]) != 1:
                return bad('H', seq, {'site': 'ctxend', 'why': 'model stack not empty'})
            if d['obs'] != exp:
                return bad(ref.classify(ctx, 'D', d['obs'], exp), seq, {'site': 'ctxend', 'diff': diff(d['obs'], exp)})
        elif kind == 'end':
            exp = ref.base(ctx)
            if len(ref.stacks[ctx]) != 1:
                return bad('H', seq, {'site': 'end', 'why': 'model stack not empty'})
            if d['obs'] != exp:
                return bad(ref.classify(ctx, 'D', d['obs'], exp), seq, {'site': 'end', 'diff': diff(d['obs'], exp)})
        elif kind == 'main':
            if d['obs'] != DEFAULT:
                return bad('D', seq, {'site': 'main', 'diff': diff(d['obs'], DEFAULT)})
        elif kind == 'error':
            return bad(d['clause'], seq, {'site': d['site'], 'why': d['why']})
    return None
