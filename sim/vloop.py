"""Virtual-time asyncio event loop and inline executor (DESIGN.md 3.1, task world).

The loop never reads a real clock and never blocks: when no callback is ready the
fake selector jumps the clock to the next timer.  Wake order is asyncio's own
(`(when, sequence)` heap, FIFO ready queue), so one program is one execution.
"""

from __future__ import annotations

import asyncio
import concurrent.futures
import threading


class SimDeadlock(RuntimeError):
    pass


class _FakeSelector:
    def __init__(self, loop: 'VirtualLoop'):
        self._loop = loop

    def select(self, timeout=None):
        if timeout is None:
            raise SimDeadlock('event loop has nothing ready and no timer pending')
        if timeout > 0:
            self._loop._vtime += timeout
            self._loop.jumps += 1
        return []

    def close(self):
        pass


class VirtualLoop(asyncio.BaseEventLoop):
    def __init__(self):
        super().__init__()
        self._vtime = 0.0
        self.jumps = 0
        self._selector = _FakeSelector(self)
        self._clock_resolution = 1e-9

    def time(self) -> float:
        return self._vtime

    def _process_events(self, event_list):
        pass

    def _write_to_self(self):
        pass


class InlineExecutor(concurrent.futures.ThreadPoolExecutor):
    """`asyncio.to_thread` target: runs each job to completion in a fresh real thread.

    The context-copy semantics of `to_thread` stay real (asyncio copies the context and
    the job runs in another OS thread); the timing is decided: the submitter waits.
    """

    def __init__(self):
        super().__init__(max_workers=1)
        self.jobs = 0

    def submit(self, fn, /, *args, **kwargs):
        fut: concurrent.futures.Future = concurrent.futures.Future()
        self.jobs += 1

        def job():
            if not fut.set_running_or_notify_cancel():
                return
            try:
                fut.set_result(fn(*args, **kwargs))
            except BaseException as exc:  # noqa: BLE001 - handed to the awaiting task
                fut.set_exception(exc)

        t = threading.Thread(target=job, name=f'sim-tothread-{self.jobs}')
        t.start()
        t.join()
        return fut


def run(main_coro_factory, debug: bool = False):
    """Runs `main_coro_factory(loop)` to completion on a fresh virtual loop.

    Returns (result, simulated_seconds, clock_jumps).
    """
    loop = VirtualLoop()
    loop.set_debug(debug)
    executor = InlineExecutor()
    loop.set_default_executor(executor)
    try:
        asyncio.set_event_loop(loop)
        result = loop.run_until_complete(main_coro_factory(loop))
        return result, loop.time(), loop.jumps
    finally:
        try:
            asyncio.set_event_loop(None)
            executor.shutdown(wait=False)
            loop.close()
        except Exception:  # pragma: no cover - never let teardown mask a result
            pass
