"""run_one: spec (or seed) -> result, with digest.  Pure function of the spec and the code."""

from __future__ import annotations

import hashlib
import json
from typing import Any

from . import model, program


def canonical(obj: Any) -> str:
    return json.dumps(obj, sort_keys=True, separators=(',', ':'), default=_default)


def _default(o):
    if isinstance(o, (set, frozenset)):
        return sorted(o)
    if isinstance(o, tuple):
        return list(o)
    raise TypeError(type(o))


def sha(obj: Any) -> str:
    return hashlib.sha256(canonical(obj).encode()).hexdigest()


def run_spec(spec: dict, keep_events: bool = False, watchdog_s: float | None = None) -> dict:
    from . import interp

    program.validate(spec)
    run = interp.Run(spec, watchdog_s or interp.WATCHDOG_S)
    run.execute()

    decisions = list(run.sched.record) if run.sched is not None else None
    status = 'ok'
    violation = run.violation
    offline = None
    if run.harness_error is not None:
        status = 'harness'
    else:
        try:
            offline = model.check_history(run.events, run.table, run.thread_inherits)
        except Exception as exc:  # the offline checker itself failed: machinery, not furax
            status = 'harness'
            import traceback

            run.harness_error = 'offline checker crashed: ' + ''.join(traceback.format_exception(type(exc), exc, exc.__traceback__))[-1500:]
        if status != 'harness':
            if offline is not None and offline[0] == 'H' and violation is None:
                status = 'harness'
                run.harness_error = f'offline checker inconsistency: {offline}'
            elif violation is not None or offline is not None:
                status = 'violation'
                if violation is None:
                    violation = {
                        'clause': offline[0],
                        'seq': offline[1],
                        'actor': None,
                        'ctx': None,
                        'detail': offline[2],
                        'by': 'offline',
                    }
                else:
                    violation = dict(violation)
                    violation['by'] = 'online+offline' if offline is not None else 'online'
                    if offline is not None:
                        violation['offline'] = {'clause': offline[0], 'seq': offline[1], 'detail': offline[2]}

    n_total = program.count_statements(spec)
    overlapping = run.probes.get('switch_with_two_actors_in_blocks', 0) > 0
    faults_fired = sum(v for k, v in run.faults.items() if k != 'badconfig')
    nontrivial = bool(overlapping or faults_fired or run.probes.get('apply_under_other_config', 0))
    result = {
        'seed': spec.get('seed'),
        'world': spec['world'],
        'status': status,
        'violation': violation,
        'harness_error': run.harness_error,
        'digest': sha({'events': run.events, 'decisions': decisions}),
        'interleaving': sha(run.trace_sig),
        'nontrivial': nontrivial,
        'decisions': decisions,
        'switch_log': list(run.sched.switch_log) if run.sched is not None else None,
        'n_events': len(run.events),
        'stmts': run.stmts,
        'stmts_total': n_total,
        'points': run.sched.points if run.sched is not None else 0,
        'switches': run.sched.switches if run.sched is not None else 0,
        'probes': dict(run.probes),
        'faults': dict(run.faults),
        'states': {sha(s)[:16] for s in run.states},
        'sim_seconds': run.sim_seconds,
        'clock_jumps': run.clock_jumps,
        'heavy': bool(spec.get('swarm', {}).get('heavy')),
        'fine': run.fine,
        'applies': sum(1 for e in run.events if e[3] == 'apply'),
        'table': dict(run.table),
    }
    if keep_events:
        result['events'] = run.events
    # Drop the run's object graph now, in this (single) thread: jitted closures and their XLA
    # executables must not be freed by a cyclic-GC pass that happens to run in an actor thread of a
    # later run while other threads compile (see campaign.after_run).
    interp._RUNS.pop(run.token, None)
    run.handles.clear()
    run.actors.clear()
    run.shared_callbacks.clear()
    run.fjit = None
    run.jarg = None
    run.shared_options = None
    run.tasks.clear()
    return result


def run_seed(seed: int, profile: dict | None = None, keep_events: bool = False) -> tuple[dict, dict]:
    spec = program.generate(seed, profile)
    return spec, run_spec(spec, keep_events=keep_events)
