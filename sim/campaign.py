"""Campaign driver: spawned worker pool, sub-campaigns, probes, evidence (DESIGN.md 3.8, 3.10)."""

from __future__ import annotations

import concurrent.futures
import hashlib
import json
import multiprocessing
import os
import subprocess
import sys
import time
from collections import Counter

from . import env

PROPERTY = 'C19'

# sub-campaigns: (name, profile, share of the tier's run budget)
SUBS = {
    'light-faultfree': {'faults': False, 'p_heavy': 0.0},
    'light-faulty': {'faults': True, 'p_heavy': 0.0},
    'heavy-faultfree': {'faults': False, 'p_heavy': 1.0},
    'heavy-faulty': {'faults': True, 'p_heavy': 1.0},
}

TIERS = {
    # runs per sub-campaign, chunk size, wall cap for the run phase (s)
    # 'hyp': (chunks, examples per chunk) for the Hypothesis generator, light and heavy
    'smoke': {'hyp': {'light': (2, 40), 'heavy': (1, 8)}, 'runs': {'light-faultfree': 300, 'light-faulty': 300, 'heavy-faultfree': 48, 'heavy-faulty': 48}, 'chunk': {'light': 50, 'heavy': 12}, 'cap_s': 120, 'det_seeds': 4},
    'quick': {'hyp': {'light': (8, 150), 'heavy': (4, 20)}, 'runs': {'light-faultfree': 3000, 'light-faulty': 5000, 'heavy-faultfree': 300, 'heavy-faulty': 650}, 'chunk': {'light': 250, 'heavy': 50}, 'cap_s': 150, 'det_seeds': 16},
    'thorough': {'hyp': {'light': (48, 1200), 'heavy': (32, 100)}, 'runs': {'light-faultfree': 60000, 'light-faulty': 100000, 'heavy-faultfree': 7000, 'heavy-faulty': 12000}, 'chunk': {'light': 500, 'heavy': 100}, 'cap_s': 2400, 'det_seeds': 64},
}


def run_seed_of(verif_seed: int, sub: str, i: int) -> int:
    """The per-run seed: a pure function of (VERIF_SEED, sub-campaign, index)."""
    h = hashlib.sha256(f'{verif_seed}|{sub}|{i}'.encode()).digest()
    return int.from_bytes(h[:7], 'big')


# ----------------------------------------------------------------------------- worker side
_worker_ready = False


def _worker_init() -> None:
    global _worker_ready
    env.setup()
    import faulthandler
    import logging

    faulthandler.enable(all_threads=True)  # a crash inside JAX/XLA leaves the Python stacks on stderr
    import gc
    import threading

    gc.disable()
    # XLA compiles on the calling thread, i.e. on actor threads; give them room (address space only)
    threading.stack_size(64 * 1024 * 1024)

    logging.getLogger('jax._src.debugging').setLevel(logging.CRITICAL)
    logging.getLogger('jax').setLevel(logging.CRITICAL)
    logging.getLogger('asyncio').setLevel(logging.CRITICAL)
    _worker_ready = True


def _profile_for(sub: str, tier: str) -> dict:
    prof = dict(SUBS[sub])
    if tier == 'thorough':
        prof['p_jit'] = 0.4
        prof['p_fine'] = 0.5
    return prof


_history: list = []  # what this worker process has executed so far, in order
_runs_done = 0


def after_run() -> None:
    """Memory hygiene between runs, while the process is single-threaded.

    Automatic cyclic GC is off in workers (it could otherwise fire inside an actor thread and free
    XLA executables of an earlier run while other threads compile -- native code we do not own);
    garbage is collected here instead.  After a short warm-up the long-lived JAX/lineax object
    graph is frozen so that each collection only scans what the last run allocated.
    """
    global _runs_done
    import gc

    _runs_done += 1
    if _runs_done % 50 == 3:
        gc.collect()
        gc.freeze()
    else:
        # automatic GC is off, so everything the run allocated is still in the youngest generation
        gc.collect(0)


def run_chunk(args: tuple) -> dict:
    """Runs the given run indices of a sub-campaign in order; stops at the first non-ok run."""
    verif_seed, sub, tier, indices, deadline = args
    if not _worker_ready:
        _worker_init()
    from . import program, runner

    prof = _profile_for(sub, tier)
    agg = new_agg()
    t0 = time.time()
    crash_marker = os.environ.get('VERIF_SELFTEST_CRASH_ONCE')
    if crash_marker and not os.path.exists(crash_marker):
        # self-test of the crash-retry path only: the first chunk to get here kills its worker
        open(crash_marker, 'w').close()
        import signal

        os.kill(os.getpid(), signal.SIGKILL)
    done: list[int] = []
    _history.append(['gen', verif_seed, sub, tier, done])
    for i in indices:
        if time.time() > deadline:
            agg['cut_short'] += 1
            break
        seed = run_seed_of(verif_seed, sub, i)
        spec = program.generate(seed, prof)
        done.append(i)
        res = runner.run_spec(spec)
        after_run()
        if res['status'] == 'ok' and not prof.get('faults', True) and res['stmts'] != res['stmts_total'] and not res['faults'].get('solver_fail'):
            # (a real solver failure that the direct-lineax table predicted is not an injected fault: a
            # captured throw=True with a solver that does not converge legitimately ends an actor early)
            # fault-free sub-campaigns: every generated statement must execute and be checked
            # (DESIGN.md 3.5); anything else means the interpreter lost part of a program
            res['status'] = 'harness'
            res['harness_error'] = f'fault-free run executed {res["stmts"]} of {res["stmts_total"]} statements'
        fold(agg, spec, res, sub)
        if res['status'] != 'ok':
            spec['decisions'] = res['decisions']
            agg['bad'] = {
                'spec': spec,
                'result': strip(res),
                'sub': sub,
                'index': i,
                'history': json.loads(json.dumps(_history)),
            }
            break
    agg['wall'] = time.time() - t0
    agg['wall_by_sub'][sub] += agg['wall']
    agg['pid'] = os.getpid()
    return agg


def strip(res: dict) -> dict:
    out = dict(res)
    out['states'] = sorted(out.get('states', ()))
    out.pop('events', None)
    return out


def new_agg() -> dict:
    return {
        'runs': 0,
        'by_sub': Counter(),
        'by_world': Counter(),
        'heavy': 0,
        'fine': 0,
        'stmts': 0,
        'stmts_total': 0,
        'events': 0,
        'points': 0,
        'switches': 0,
        'applies': 0,
        'sim_seconds': 0.0,
        'clock_jumps': 0,
        'probes': Counter(),
        'faults': Counter(),
        'runs_with_fault': Counter(),
        'interleavings': set(),
        'nontrivial': set(),
        'states': set(),
        'samples': [],
        'bad': None,
        'cut_short': 0,
        'wall': 0.0,
        'wall_by_sub': Counter(),
    }


def fold(agg: dict, spec: dict, res: dict, sub: str) -> None:
    agg['runs'] += 1
    agg['by_sub'][sub] += 1
    agg['by_world'][res['world']] += 1
    agg['heavy'] += int(res['heavy'])
    agg['fine'] += int(res['fine'])
    for key in ('stmts', 'stmts_total', 'points', 'switches', 'applies', 'clock_jumps'):
        agg[key] += res[key]
    agg['events'] += res['n_events']
    agg['sim_seconds'] += res['sim_seconds']
    agg['probes'].update(res['probes'])
    agg['faults'].update(res['faults'])
    for kind in res['faults']:
        agg['runs_with_fault'][kind] += 1
    agg['interleavings'].add(res['interleaving'][:20])
    if res['nontrivial']:
        agg['nontrivial'].add(res['interleaving'][:20])
    agg['states'] |= res['states']
    if len(agg['samples']) < 1 and res['nontrivial'] and res['status'] == 'ok':
        agg['samples'].append({'sub': sub, 'spec': spec, 'decisions': res['decisions'], 'digest': res['digest']})


def merge_agg(total: dict, part: dict) -> None:
    for key in ('runs', 'heavy', 'fine', 'stmts', 'stmts_total', 'events', 'points', 'switches', 'applies', 'clock_jumps', 'cut_short'):
        total[key] += part[key]
    total['sim_seconds'] += part['sim_seconds']
    total['wall'] += part['wall']
    for key in ('by_sub', 'by_world', 'probes', 'faults', 'runs_with_fault', 'wall_by_sub'):
        total[key].update(part[key])
    for key in ('interleavings', 'nontrivial', 'states'):
        total[key] |= part[key]
    if len(total['samples']) < 4:
        total['samples'].extend(part['samples'][: 4 - len(total['samples'])])
    if part['bad'] is not None and total['bad'] is None:
        total['bad'] = part['bad']


# ----------------------------------------------------------------------------- determinism mini-proof
def digest_chunk(args: tuple) -> list:
    """Digests of a list of (sub, index) runs; executed in pool workers and in fresh interpreters."""
    verif_seed, tier, items = args[:3]
    extra = len(args) > 3 and args[3]
    if not _worker_ready:
        _worker_init()
    from . import program, runner

    out = []
    for sub, i in items:
        seed = run_seed_of(verif_seed, sub, i)
        spec = program.generate(seed, _profile_for(sub, tier))
        done = [i]
        _history.append(['gen', verif_seed, sub, tier, done])
        dump = os.environ.get('VERIF_DUMP_EVENTS')
        res = runner.run_spec(spec, keep_events=bool(dump))
        after_run()
        if dump:
            os.makedirs(dump, exist_ok=True)
            with open(os.path.join(dump, f'{sub}-{i}-{res["digest"][:12]}.json'), 'w') as f:
                json.dump(res['events'], f)
        if res['status'] == 'ok' and res['decisions'] is not None:
            # replay machinery: the same spec driven by the *recorded* decision list instead of the PRNG
            # must be the same execution
            again = dict(spec)
            again['decisions'] = list(res['decisions'])
            _history.append(['specs', [json.loads(json.dumps(again))]])  # the history must list every execution
            res2 = runner.run_spec(again)
            after_run()
            if res2['digest'] != res['digest']:
                res = dict(res)
                res['digest'] = 'REPLAY-MISMATCH:' + res['digest'][:16] + '/' + res2['digest'][:16]
        row = [sub, i, res['digest'], res['status']]
        if extra:
            row.append(runner.sha([sorted(res['states']), res['interleaving'], sorted((k, v) for k, v in res['probes'].items() if not k.startswith('diag:')), sorted(res['faults'].items())])[:16])
        out.append(row)
    return out


def fresh_interpreter_digests(verif_seed: int, tier: str, items: list, hashseed: str, extra: bool = False) -> list:
    """Same runs in a brand-new interpreter under another PYTHONHASHSEED."""
    envv = dict(os.environ)
    envv['PYTHONHASHSEED'] = hashseed
    code = (
        'import sys, json; sys.path.insert(0, %r); '
        'from sim import env; env.setup(); '
        'from sim import campaign; '
        'args = json.loads(sys.stdin.read()); '
        'real = campaign.real_stdout(); '
        'out = campaign.digest_chunk((args[0], args[1], [tuple(x) for x in args[2]], args[3])); '
        'real.write(json.dumps(out))' % env.VERIF_ROOT
    )
    proc = subprocess.run(
        [sys.executable, '-c', code],
        input=json.dumps([verif_seed, tier, items, extra]),
        capture_output=True,
        text=True,
        env=envv,
        timeout=600,
    )
    if proc.returncode != 0:
        raise RuntimeError(f'fresh interpreter failed: {proc.stderr[-2000:]}')
    return json.loads(proc.stdout.strip().splitlines()[-1])


def real_stdout():
    from . import interp

    return interp.real_stdout()


# ----------------------------------------------------------------------------- brand-new processes
def run_one_spec(spec: dict) -> dict:
    if not _worker_ready:
        _worker_init()
    from . import runner

    res = strip(runner.run_spec(spec))
    after_run()
    return res


def _history_specs(history: list, stop_seed):
    """The specs a recorded worker history stands for, in order, up to (excluding) `stop_seed`."""
    from . import program

    for entry in history:
        if entry[0] == 'gen':
            _, verif_seed, sub, tier, indices = entry
            prof = _profile_for(sub, tier)
            for i in indices:
                s = program.generate(run_seed_of(verif_seed, sub, i), prof)
                if s['seed'] == stop_seed and s.get('generator') != 'hypothesis':
                    return
                yield s
        else:  # ['specs', [spec, ...]] -- runs that cannot be regenerated from an index (Hypothesis)
            for s in entry[1]:
                yield s


def flatten_history(history: list, stop_seed) -> list:
    """History as a flat list of single-run entries (for minimisation)."""
    flat = []
    for entry in history:
        if entry[0] == 'gen':
            _, verif_seed, sub, tier, indices = entry
            prof = _profile_for(sub, tier)
            from . import program

            for i in indices:
                if program.generate(run_seed_of(verif_seed, sub, i), prof)['seed'] == stop_seed:
                    return flat
                flat.append(['gen', verif_seed, sub, tier, [i]])
        else:
            for s in entry[1]:
                flat.append(['specs', [s]])
    return flat


def run_history_then_spec(args: tuple) -> dict:
    """Re-executes a recorded worker history in order, then the spec (history replay)."""
    history, spec = args
    if not _worker_ready:
        _worker_init()
    from . import runner

    earlier = None
    n = 0
    for s in _history_specs(history, spec['seed']):
        res = runner.run_spec(s)
        after_run()
        n += 1
        if earlier is None and res['status'] == 'violation':
            # an earlier run of the history already violates the property in this process: reported to the
            # caller, which may accept it when the final run does not reproduce (address-dependent failures)
            s = dict(s)
            s['decisions'] = res.get('decisions')
            earlier = {'spec': s, 'result': strip(res), 'position': n}
    final = strip(runner.run_spec(spec))
    final['earlier_violation'] = earlier
    return final


def run_fresh_histories(cases: list[tuple], parallel: int = 16, timeout_s: float = 3600.0) -> list[dict]:
    """Each (history, spec) in a brand-new process; results in order."""
    if not cases:
        return []
    ctx = multiprocessing.get_context('spawn')
    with concurrent.futures.ProcessPoolExecutor(max_workers=min(parallel, len(cases)), mp_context=ctx, max_tasks_per_child=1) as pool:
        futs = [pool.submit(run_history_then_spec, c) for c in cases]
        return [f.result(timeout=timeout_s) for f in futs]


def minimise_history(history: list, spec: dict, clause: str, parallel: int = 16, budget: int = 96) -> tuple[list, dict | None, int]:
    """ddmin (complement removal) over the flat list of earlier runs a violation depends on."""
    flat = flatten_history(history, spec['seed'])
    best_res = None
    used = 0
    n = 2
    while flat and used < budget:
        size = len(flat)
        n = min(n, size)
        bounds = [(size * k // n, size * (k + 1) // n) for k in range(n)]
        cands = [flat[:lo] + flat[hi:] for lo, hi in bounds if hi > lo]
        cands = cands[: max(1, budget - used)]
        results = run_fresh_histories([(c, spec) for c in cands], parallel)
        used += len(cands)
        hit = next((k for k, r in enumerate(results) if r['status'] == 'violation' and r['violation']['clause'] == clause), None)
        if hit is not None:
            flat, best_res = cands[hit], results[hit]
            n = max(n - 1, 2)
            continue
        if n >= size:
            break
        n = min(size, n * 2)
    return flat, best_res, used


def run_fresh(specs: list[dict], parallel: int = 16, timeout_s: float = 900.0) -> list[dict]:
    """Each spec as the first and only run of a brand-new spawned process; results in order."""
    if not specs:
        return []
    ctx = multiprocessing.get_context('spawn')
    with concurrent.futures.ProcessPoolExecutor(
        max_workers=min(parallel, len(specs)), mp_context=ctx, max_tasks_per_child=1
    ) as pool:
        futs = [pool.submit(run_one_spec, s) for s in specs]
        return [f.result(timeout=timeout_s) for f in futs]


# ----------------------------------------------------------------------------- pool
def make_pool(workers: int) -> concurrent.futures.ProcessPoolExecutor:
    ctx = multiprocessing.get_context('spawn')
    return concurrent.futures.ProcessPoolExecutor(max_workers=workers, mp_context=ctx, initializer=_worker_init)


def kill_pool(pool: concurrent.futures.ProcessPoolExecutor) -> None:
    """Ends a pool without waiting for workers that may hold wedged daemon threads."""
    procs = list(getattr(pool, '_processes', {}).values())
    pool.shutdown(wait=False, cancel_futures=True)
    for p in procs:
        try:
            p.kill()
        except Exception:  # pragma: no cover
            pass
    for p in procs:
        try:
            p.join(timeout=5)
        except Exception:  # pragma: no cover
            pass


def run_fresh_history(history: list, spec: dict, timeout_s: float = 3600.0) -> dict:
    return run_fresh_histories([(history, spec)], 1, timeout_s)[0]


# ----------------------------------------------------------------------------- screening (minimiser)
def screen_chunk(args: tuple) -> list:
    """In-process screening of candidate specs: for each, the variant that violated `clause` or None.

    Thread-world candidates whose recorded schedule no longer fails are retried under a few other
    scheduler seeds.  Results are hints only: the caller confirms every hit in a brand-new process.
    """
    specs, clause, extra = args
    if not _worker_ready:
        _worker_init()
    from . import runner

    out = []
    for spec in specs:
        if any(h is not None for h in out):
            # this process has just seen a violation: if the implementation under test keeps state
            # outside the context, whatever it says from now on is unreliable, and the caller restarts
            # from the first confirmed hit anyway
            out.append(None)
            continue
        variants = [spec]
        if spec.get('world') == 'thread':
            for k in range(1, extra + 1):
                v = dict(spec)
                v['decisions'] = None
                v['switches'] = None
                v['seed'] = int(spec.get('seed') or 0) + 7919 * k
                variants.append(v)
        hit = None
        for v in variants:
            res = runner.run_spec(v)
            after_run()
            if res['status'] == 'violation' and res['violation']['clause'] == clause:
                hit = dict(v)
                if res.get('decisions') is not None:
                    hit['decisions'] = res['decisions']
                    hit['switches'] = res.get('switch_log')
                break
        out.append(hit)
    return out


class Screener:
    """A pool of sacrificial workers for screen_chunk; rebuilt after every hit (a worker that has seen a
    violation of a broken implementation may be left in a dirty state)."""

    def __init__(self, workers: int = 16, extra_seeds: int = 4):
        self.workers = workers
        self.extra = extra_seeds
        self.pool = None

    def __call__(self, specs: list[dict], clause: str) -> list:
        if self.pool is None:
            self.pool = make_pool(self.workers)
        n = len(specs)
        size = max(1, min(8, (n + self.workers - 1) // self.workers))
        futs = [self.pool.submit(screen_chunk, (specs[k : k + size], clause, self.extra)) for k in range(0, n, size)]
        out: list = []
        try:
            for f in futs:
                out.extend(f.result(timeout=1800))
        except Exception:
            # a dead or wedged screening worker only costs the hints
            kill_pool(self.pool)
            self.pool = None
            return [s for s in specs]  # everything unscreened: confirm them all the slow way
        if any(h is not None for h in out):
            kill_pool(self.pool)
            self.pool = None
        return out

    def close(self) -> None:
        if self.pool is not None:
            kill_pool(self.pool)
            self.pool = None
