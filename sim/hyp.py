"""Second, independent generator: Hypothesis builds (programs, cancel plan, swarm, scheduler seed)
as data and feeds the same executor and oracles (DESIGN.md 3.9, thorough tier).

Hypothesis is used for what it is good at here — a different distribution over program
trees than the swarm generator, with its own in-process shrinking — but a failing
example is never trusted as found: the caller re-executes it in a brand-new process
and minimises it there (sim.shrink), so that the replay file is an exact execution.
"""

from __future__ import annotations

from typing import Any

from . import program


def _normalise(world: str, heavy: bool, programs: list, cancels: list, swarm: dict, seed: int, async_at: list) -> dict:
    """Makes drawn data a valid spec: unique uids / actor ids, world constraints, bounds."""
    uid = 0
    next_cid = len(programs)
    spawned = 0
    task = world == 'task'

    pending: list[int] = []  # prebuilt Config objects of the actor being normalised

    def fix_body(body: list, sync: bool, depth: int) -> list:
        nonlocal uid, next_cid, spawned
        out = []
        for stmt in body:
            kind = stmt[0]
            if kind == 'BLOCK':
                if depth >= 8:
                    continue
                uid += 1
                out.append(['BLOCK', uid, dict(stmt[2]), fix_body(stmt[3], sync, depth + 1)])
            elif kind == 'CONSTRUCT':
                uid += 1
                out.append(['CONSTRUCT', uid, dict(stmt[2])])
            elif kind == 'PREBUILD':
                uid += 1
                pending.append(uid)
                out.append(['PREBUILD', uid, dict(stmt[2])])
            elif kind == 'ENTER':
                if pending and depth < 8:
                    out.append(['ENTER', pending.pop(stmt[1] % len(pending)), fix_body(stmt[2], sync, depth + 1)])
                else:
                    out.extend(fix_body(stmt[2], sync, depth))
            elif kind == 'TRY':
                catch = stmt[2]
                if catch == 'cancel' and not task:
                    catch = 'base'
                out.append(['TRY', fix_body(stmt[1], sync, depth), catch])
            elif kind == 'SPAWN':
                if (task and sync) or spawned >= 5:
                    continue
                spawned += 1
                cid = next_cid
                next_cid += 1
                saved = list(pending)
                pending.clear()
                child = fix_body(stmt[2], False if task else sync, 0)
                pending[:] = saved
                out.append(['SPAWN', cid, child, bool(stmt[3]) if len(stmt) > 3 else False])
            elif kind == 'JOIN':
                if task and sync:
                    continue
                out.append(['JOIN', stmt[1]])
            elif kind == 'CTXRUN':
                out.append(['CTXRUN', fix_body(stmt[1], True, depth)])
            elif kind in ('SLEEP', 'CALLSOON'):
                if task and not sync:
                    out.append(list(stmt))
            elif kind == 'TIMEOUT':
                if task and not sync:
                    out.append(['TIMEOUT', stmt[1], fix_body(stmt[2], sync, depth)])
                else:
                    out.extend(fix_body(stmt[2], sync, depth))
            elif kind == 'TOTHREAD':
                if task and not sync:
                    out.append(['TOTHREAD', fix_body(stmt[1], True, depth)])
                else:
                    out.extend(fix_body(stmt[1], sync, depth))
            elif kind == 'APPLY':
                if heavy:
                    out.append(list(stmt))
            else:
                out.append(list(stmt))
        return out

    progs = []
    for p in programs:
        pending.clear()
        progs.append(fix_body(p, False, 0))
    # JOIN targets: map small integers onto spawned actor ids
    cids = [s[1] for p in progs for s in program.iter_statements(p) if s[0] == 'SPAWN']
    for p in progs:
        for s in program.iter_statements(p):
            if s[0] == 'JOIN':
                s[1] = cids[s[1] % len(cids)] if cids else 10_000
    ids = list(range(len(progs))) + cids
    spec = {
        'version': 1,
        'seed': seed,
        'world': world,
        'swarm': dict(swarm, world=world, heavy=heavy, actors=len(progs)),
        'programs': progs,
        'cancels': sorted([round(t, 4), ids[a % len(ids)]] for t, a in cancels) if task else [],
        'async_at': sorted(set(async_at)) if (not task and swarm.get('fine')) else [],
        'decisions': None,
        'generator': 'hypothesis',
    }
    if not task:
        spec['swarm']['fine'] = bool(swarm.get('fine'))
    else:
        spec['swarm']['fine'] = False
        spec['swarm']['park_cb'] = False
    program.validate(spec)
    return spec


def spec_strategy(heavy: bool):
    from hypothesis import strategies as st

    world = st.sampled_from(['thread', 'task'])
    solver = st.sampled_from(['cg1', 'cg40', 'cg41', 'cg500', 'cg40!', 'cg500!']) if heavy else st.sampled_from(['u', 'u', 'ug', 'ub', 'cg40', 'cg500', 'cg500!', 'gm30'])
    kw = st.fixed_dictionaries(
        {},
        optional={
            'solver': solver,
            'throw': st.booleans(),
            'options': st.sampled_from(['E', 'P', 'Y', 'PY', 'S', 'Z'] if heavy else ['E', 'P', 'S', 'Z']),
            'callback': st.sampled_from(['u', 'u', 'u', 'k0', 'k1', 'D', 'R'] if heavy else ['u', 'u', 'k0', 'k1', 'D']),
        },
    )
    small = st.integers(0, 7)
    leaves = [
        st.just(['READ']),
        st.just(['READ']),
        st.just(['READ']),
        st.builds(lambda s: ['CREATE', s], st.sampled_from(list(program.SHAPES[:-1]))),
        st.builds(lambda s: ['CREATE', s], st.sampled_from(list(program.SHAPES) if heavy else list(program.SHAPES[:-1]))),
        st.just(['BADCONFIG']),
        st.builds(lambda k: ['DROP', k], st.sampled_from([-1, -2, 0, 3])),
        st.builds(lambda k: ['CONSTRUCT', 0, k], kw),
        st.builds(lambda k: ['RAISE', k], st.sampled_from(list(program.RAISES))),
        st.builds(lambda k: ['PREBUILD', 0, k], kw),
        st.builds(lambda k, r: ['ROUNDTRIP', k, r], small, st.sampled_from(program.ROUNDTRIPS)),
        st.builds(lambda k: ['JOIN', k], small),
        st.builds(lambda d: ['SLEEP', d], st.sampled_from(program.SLEEPS)),
        st.just(['CALLSOON']),
    ]
    if heavy:
        leaves.append(
            st.builds(
                lambda k, m, f: ['APPLY', k, m, f],
                small,
                st.sampled_from(['eager', 'eager', 'eager', 'eager', 'jit', 'fjit', 'jarg']),
                st.sampled_from([None, None, None, 'seam-mem', 'seam-rt', 'stdout']),
            )
        )
        leaves.append(st.builds(lambda k: ['APPLY', k, 'eager', None], small))
    leaf = st.one_of(*leaves)

    def extend(children):
        body = st.lists(children, min_size=0, max_size=5)
        return st.one_of(
            st.builds(lambda k, b: ['BLOCK', 0, k, b], kw, body),
            st.builds(lambda k, b: ['BLOCK', 0, k, b], kw, body),
            st.builds(lambda b, c: ['TRY', b, c], body, st.sampled_from(['exc', 'base', 'cancel'])),
            st.builds(lambda b, a: ['SPAWN', 0, b, a], body, st.booleans()),
            st.builds(lambda b: ['CTXRUN', b], body),
            st.builds(lambda k, b: ['ENTER', k, b], small, body),
            st.builds(lambda d, b: ['TIMEOUT', d, b], st.sampled_from([0.0005, 0.2, 5, 1e6]), body),
            st.builds(lambda b: ['TOTHREAD', b], body),
        )

    stmt = st.recursive(leaf, extend, max_leaves=14 if heavy else 25)
    prog = st.lists(stmt, min_size=0, max_size=8)
    swarm = st.fixed_dictionaries(
        {
            'strategy': st.sampled_from(['random', 'pct', 'boundary']),
            'p_switch': st.sampled_from([0.1, 0.3, 0.6, 1.0]),
            'p_line': st.sampled_from([0.02, 0.1, 0.3, 0.6]),
            'pct_depth': st.integers(1, 3),
            'fine': st.booleans(),
            'ultra': st.booleans(),
            'park_cb': st.booleans() if heavy else st.just(False),
            'share': st.booleans(),
            'jit': st.just(heavy),
            'faults': st.just(['hypothesis']),
            'depth': st.just(8),
            'budget': st.just(0),
            'no_cg1': st.just(False),
            'witness': st.just(False),
        }
    )
    cancels = st.lists(st.tuples(st.floats(0, 30, allow_nan=False), st.integers(0, 9)), max_size=3)
    return st.builds(
        lambda w, ps, cs, sw, seed, aa: _normalise(w, heavy, ps, cs, sw, seed, aa),
        world,
        st.lists(prog, min_size=1, max_size=4),
        cancels,
        swarm,
        st.integers(0, 2**40),
        st.lists(st.integers(1, 120), max_size=2),
    )


class Found(BaseException):
    """Carries the first failing example out of Hypothesis."""

    def __init__(self, spec: dict, result: dict):
        super().__init__('violation')
        self.spec = spec
        self.result = result


def hypothesis_chunk(args: tuple) -> dict:
    """One Hypothesis session in this worker: `examples` examples derived from `hseed`.

    Returns an aggregate like campaign.run_chunk; on the first failing example stops at once
    (no in-process shrinking: a broken implementation may keep process-global state, so
    minimisation is done by the caller in brand-new processes).
    """
    hseed, heavy, examples, deadline = args
    import time

    from hypothesis import HealthCheck, Phase, given, seed, settings

    from . import campaign, runner

    if not campaign._worker_ready:
        campaign._worker_init()
    agg = campaign.new_agg()
    sub = 'hypothesis-heavy' if heavy else 'hypothesis-light'
    t0 = time.time()
    state: dict[str, Any] = {'n': 0}
    done: list = []
    campaign._history.append(['specs', done])

    @seed(hseed)
    @settings(
        max_examples=examples,
        database=None,
        deadline=None,
        report_multiple_bugs=False,
        phases=[Phase.generate],
        suppress_health_check=list(HealthCheck),
        derandomize=False,
    )
    @given(spec_strategy(heavy))
    def session(spec):
        if time.time() > deadline:
            return
        state['n'] += 1
        res = runner.run_spec(spec)
        campaign.after_run()
        done.append(spec)
        campaign.fold(agg, spec, res, sub)
        if res['status'] != 'ok':
            spec['decisions'] = res['decisions']
            raise Found(spec, campaign.strip(res))

    try:
        session()
    except Found as found:
        import json

        if done and done[-1] is found.spec:
            done.pop()
        agg['bad'] = {'spec': found.spec, 'result': found.result, 'sub': sub, 'index': state['n'], 'history': json.loads(json.dumps(campaign._history))}
    agg['wall'] = time.time() - t0
    agg['wall_by_sub'][sub] += agg['wall']
    return agg
