"""Program grammar and swarm generator (DESIGN.md 3.2).

A *spec* is a JSON-serialisable dict:

    {"version": 1, "seed": int, "world": "thread" | "task", "swarm": {...},
     "programs": [body, ...],          # one per initial actor (actor ids 0..n-1)
     "cancels": [[t, actor], ...],     # task world: simulator-fired task.cancel() at virtual time t
     "async_at": [n, ...],             # thread world, fine mode: F12 asynchronous exception raised at the n-th
                                       # line event inside library code (never inside __enter__/__exit__)
     "decisions": null | [int, ...]}   # recorded scheduler choices (replay) or null (draw from PRNG)

A *body* is a list of statements; a statement is a list whose first item is its kind:

    ["BLOCK", uid, kw, body]     with Config(**kw) as c: body
                                 kw: {"solver": tag, "throw": bool, "options": kind, "callback": "u"|"D"|"R"}
    ["READ"]
    ["CREATE", shape]            shape in SHAPES; appends a handle to the run's handle table
    ["APPLY", k, mode, fault]    k-th visible handle (mod count); mode in MODES; fault in APPLY_FAULTS
    ["ROUNDTRIP", k, kind]       kind in ROUNDTRIPS; appends a derived handle
    ["DROP", k]                  forget a handle: the operator (and whatever only it kept alive) is released
    ["TRY", body, catch]         catch in "exc" | "base" | "cancel"
    ["RAISE", kind]              kind in RAISES: Exception classes (SimFault, ValueError, KeyError, TimeoutError,
                                 MemoryError) and BaseException classes (SimBaseFault, GeneratorExit,
                                 KeyboardInterrupt, SystemExit, CancelledError)
    ["BADCONFIG"]
    ["CONSTRUCT", uid, kw]       Config(**kw) built and dropped, never entered: must change nothing
    ["PREBUILD", uid, kw]        c_uid = Config(**kw), kept by the actor
    ["ENTER", uid, body]         with c_uid as c: body   (each prebuilt object is entered at most once)
    ["SPAWN", cid, body, alt]    thread world: threading.Thread (alt: target=copy_context().run, inherits a snapshot);
                                 task world: create_task (alt: context=Context(), an empty context)
    ["JOIN", cid]
    ["CTXRUN", body]             contextvars.copy_context().run(...); body is synchronous
    ["SLEEP", d] ["TIMEOUT", d, body] ["CALLSOON"] ["TOTHREAD", body]     task world only

Programs are well nested by construction: a BLOCK is a real `with` statement around
its body.
"""

from __future__ import annotations

import random
from typing import Any, Iterator

SHAPES = ('single:A', 'single:B', 'single:T', 'blockdiag', 'blockdict', 'method:B', 'expr:AB', 'expr:A2', 'expr:RC', 'comp:A', 'neg:B', 'nested')
MODES = ('eager', 'jit', 'fjit', 'jarg')
APPLY_FAULTS = (None, 'seam-mem', 'seam-rt', 'stdout')
ROUNDTRIPS = ('flatten', 'reduce', 'compose-reduce', 'pair-reduce', 'transpose')
SLEEPS = (0, 0, 0.001, 0.01, 0.5, 1, 10, 60)
RAISES_EXC = ('exc', 'exc', 'value', 'key', 'timeouterr', 'mem')
RAISES_BASE = ('base', 'base', 'genexit', 'genexit', 'kbd', 'sysexit', 'cancelled')
RAISES = tuple(sorted(set(RAISES_EXC + RAISES_BASE)))
ALL_FAULTS = (
    'raise_exc',  # F1
    'raise_base',  # F2
    'solver_fail',  # F3
    'seam',  # F4
    'stdout',  # F5
    'cb_raise',  # F6
    'death',  # F8
    'cancel',  # F9
    'timeout',  # F10
    'async_exc',  # F12
)
SYNC_ONLY = {'SLEEP', 'TIMEOUT', 'CALLSOON', 'TOTHREAD'}


# ----------------------------------------------------------------------------- traversal helpers
def sub_bodies(stmt: list) -> list[list]:
    kind = stmt[0]
    if kind == 'BLOCK':
        return [stmt[3]]
    if kind == 'ENTER':
        return [stmt[2]]
    if kind == 'TRY':
        return [stmt[1]]
    if kind == 'SPAWN':
        return [stmt[2]]
    if kind == 'CTXRUN':
        return [stmt[1]] + ([stmt[2]] if len(stmt) > 2 and stmt[2] is not None else [])
    if kind == 'TOTHREAD':
        return [stmt[1]]
    if kind == 'TIMEOUT':
        return [stmt[2]]
    return []


def iter_statements(body: list) -> Iterator[list]:
    for stmt in body:
        yield stmt
        for sub in sub_bodies(stmt):
            yield from iter_statements(sub)


def count_statements(spec: dict) -> int:
    return sum(1 for prog in spec['programs'] for _ in iter_statements(prog))


def max_depth(body: list, depth: int = 0) -> int:
    best = depth
    for stmt in body:
        inner = depth + 1 if stmt[0] in ('BLOCK', 'ENTER') else depth
        for sub in sub_bodies(stmt):
            best = max(best, max_depth(sub, inner))
    return best


def actor_ids(spec: dict) -> list[int]:
    ids = list(range(len(spec['programs'])))
    for prog in spec['programs']:
        for stmt in iter_statements(prog):
            if stmt[0] == 'SPAWN':
                ids.append(stmt[1])
    return ids


def validate(spec: dict) -> None:
    """Raises ValueError for a spec the interpreter must not be given."""
    if spec.get('world') not in ('thread', 'task'):
        raise ValueError('world')
    uids: set[int] = set()
    cids: set[int] = set(range(len(spec['programs'])))

    def walk(body: list, sync: bool) -> None:
        for stmt in body:
            kind = stmt[0]
            if kind == 'BLOCK':
                if stmt[1] in uids:
                    raise ValueError(f'duplicate uid {stmt[1]}')
                uids.add(stmt[1])
                walk(stmt[3], sync)
            elif kind == 'SPAWN':
                if stmt[1] in cids:
                    raise ValueError(f'duplicate actor id {stmt[1]}')
                cids.add(stmt[1])
                if sync and spec['world'] == 'task':
                    raise ValueError('SPAWN inside a synchronous body in the task world')
                walk(stmt[2], False if spec['world'] == 'task' else sync)
            elif kind in SYNC_ONLY:
                if spec['world'] != 'task' or sync:
                    raise ValueError(f'{kind} not allowed here')
                for sub in sub_bodies(stmt):
                    walk(sub, True if kind == 'TOTHREAD' else sync)
            elif kind == 'CTXRUN':
                walk(stmt[1], True)
                if len(stmt) > 2 and stmt[2] is not None:
                    walk(stmt[2], True)
            elif kind == 'JOIN':
                if sync and spec['world'] == 'task':
                    raise ValueError('JOIN inside a synchronous body in the task world')
            elif kind == 'TRY':
                if stmt[2] == 'cancel' and spec['world'] != 'task':
                    raise ValueError('cancel catch outside the task world')
                walk(stmt[1], sync)
            elif kind in ('CONSTRUCT', 'PREBUILD'):
                if stmt[1] in uids:
                    raise ValueError(f'duplicate uid {stmt[1]}')
                uids.add(stmt[1])
            elif kind == 'ENTER':
                walk(stmt[2], sync)
            elif kind == 'RAISE':
                if stmt[1] not in RAISES:
                    raise ValueError(f'unknown RAISE kind {stmt[1]}')
            elif kind in ('READ', 'CREATE', 'APPLY', 'ROUNDTRIP', 'RAISE', 'BADCONFIG', 'DROP'):
                pass
            else:
                raise ValueError(f'unknown statement {kind}')

    for prog in spec['programs']:
        walk(prog, False)


# ----------------------------------------------------------------------------- swarm
def gen_swarm(rng: random.Random, profile: dict) -> dict:
    """Per-run configuration drawn from the run PRNG (DESIGN.md 3.2 'Swarm')."""
    world = 'thread' if rng.random() < profile.get('p_thread', 0.6) else 'task'
    heavy = rng.random() < profile.get('p_heavy', 0.15)
    faulty = profile.get('faults', True)
    if faulty:
        faults = [f for f in ALL_FAULTS if rng.random() < 0.6]
        if not faults:
            faults = [rng.choice(ALL_FAULTS)]
    else:
        faults = []
    fine = world == 'thread' and rng.random() < profile.get('p_fine', 0.35)
    swarm = {
        'world': world,
        'actors': rng.choice([1, 2, 2, 2, 3, 3, 4]) if rng.random() < 0.97 else rng.choice([6, 8]),
        'depth': rng.randint(1, 6),
        'budget': rng.randint(4, 40 if not heavy else 24) if (heavy or rng.random() < 0.97) else rng.randint(80, 160),
        # 'tower': one actor is a chain of 10-40 nested blocks unwound by one exception ("any depth")
        'tower': (not heavy) and rng.random() < 0.04,
        # 'hoard': one actor creates 20-50 inverses, each under its own configuration, then goes back to
        # the oldest ones (bounded caches / tables of captured states, recycled ids)
        'hoard': rng.random() < 0.04,
        # 'churn': many sequential blocks, each creating, (applying) and dropping an inverse, so that
        # configuration states die and their memory is reused (id()-keyed or weakly held bookkeeping)
        'churn': rng.random() < 0.04,
        'heavy': heavy,
        'fine': fine,
        # a third of the fine runs pre-empt between bytecodes instead of between lines
        'ultra': fine and rng.random() < 0.33,
        'strategy': rng.choice(['random', 'random', 'pct', 'boundary']),
        'p_switch': rng.choice([0.1, 0.3, 0.6, 1.0]),
        'p_line': rng.choice([0.02, 0.1, 0.3, 0.6]),
        'pct_depth': rng.randint(1, 3),
        'faults': faults,
        'share': rng.random() < 0.7,
        'jit': heavy and rng.random() < profile.get('p_jit', 0.25),
        'park_cb': heavy and world == 'thread' and rng.random() < 0.4,
        # fault-free runs: either no never-converging solver or no throw=True, so that no
        # captured combination can raise
        'no_cg1': (not faulty or 'solver_fail' not in faults) and rng.random() < 0.5,
        'witness': rng.random() < 0.25,
    }
    force = profile.get('force')
    if force in ('churn', 'hoard', 'tower'):
        # self-contained runs of one special shape (used to look for a replayable instance of a failure
        # that was first seen depending on what earlier runs left in a worker process)
        swarm['tower'] = swarm['hoard'] = swarm['churn'] = False
        swarm[force] = True
        if force == 'tower':
            swarm['heavy'] = False
    return swarm


class _Gen:
    def __init__(self, rng: random.Random, swarm: dict):
        self.rng = rng
        self.sw = swarm
        self.uid = 0
        self.next_cid = swarm['actors']
        self.task = swarm['world'] == 'task'
        self.faults = set(swarm['faults'])
        self.spawned = 0
        self.creates = 0
        self.prebuilt: list[int] = []  # uids built by the actor being generated, not entered yet
        self.kw_stack: list[dict] = []  # settings of the blocks enclosing the statement being generated

    # -- settings
    REPEATABLE = {
        'callback': ('k0', 'k1', 'D'),
        'solver': ('cg1', 'cg40', 'cg41', 'cg500', 'cg1!', 'cg40!', 'cg500!', 'gm30', 'bi30'),
        'options': ('S', 'Z'),
        'throw': (True, False),
    }

    def kw(self) -> dict:
        rng = self.rng
        heavy = self.sw['heavy']
        if self.kw_stack and rng.random() < 0.15:
            # repeat (the repeatable part of) an enclosing block's settings: a block that changes nothing
            # relative to what is active, possibly in a child context
            src = rng.choice(self.kw_stack)
            same = {n: v for n, v in src.items() if v in self.REPEATABLE[n]}
            if same:
                return dict(same)
        kw: dict[str, Any] = {}
        names = ['callback', 'solver', 'throw', 'options']
        # 0: `with Config():` -- a block that names nothing and inherits everything
        k = rng.choice([1, 1, 2, 2, 3, 4, 1, 2, 3, 0])
        for name in rng.sample(names, k):
            if name == 'callback':
                roll = rng.random()
                if 'cb_raise' in self.faults and heavy and roll < 0.08:
                    kw[name] = 'R'
                elif 'stdout' in self.faults and heavy and roll < 0.2:
                    kw[name] = 'D'
                elif roll > 0.93:
                    kw[name] = 'D'  # the library default callback given explicitly (a reset to the default)
                elif roll > 0.72:
                    # one of two callback objects shared by every block of the run that picks it: blocks
                    # whose settings repeat, or equal what is already active ("change nothing")
                    kw[name] = rng.choice(['k0', 'k0', 'k1'])
                else:
                    kw[name] = 'u'
            elif name == 'solver':
                if heavy:
                    # other solver classes rarely (each costs a compile); '!' = a fresh, equal instance
                    pal = ['cg40', 'cg41', 'cg500', 'cg40!', 'cg500!', 'cg40', 'cg41', 'cg500'] + ((['gm30', 'bi30'] if 'solver_fail' in self.faults else ['gm30']) if rng.random() < 0.15 else [])
                    if not self.sw['no_cg1']:
                        pal += ['cg1', 'cg1', 'cg1!']
                    kw[name] = rng.choice(pal)
                else:
                    # light runs never apply, so any solver class and palette values (repeatable; cg500
                    # equals the default) cost nothing there
                    kw[name] = rng.choice(['u', 'u', 'u', 'ug', 'ub']) if rng.random() < 0.6 else rng.choice(['cg40', 'cg500', 'cg500!', 'cg1', 'cg40!', 'gm30', 'bi30'])
            elif name == 'throw':
                allow_true = bool(self.faults and 'solver_fail' in self.faults) or self.sw['no_cg1']
                kw[name] = (rng.random() < 0.5) if allow_true else False
            else:
                # 'S' is one dict object shared by every block of the run that uses it
                # 'Z' is a literally empty dict: the default value given explicitly (and falsy)
                kw[name] = rng.choice(['E', 'P', 'E', 'P', 'Y', 'PY', 'S', 'S', 'Z']) if heavy else rng.choice(['E', 'P', 'S', 'Z'])
        return kw

    def hoard(self) -> list:
        rng = self.rng
        heavy = self.sw['heavy']
        n = rng.randint(20, 50) if not heavy else rng.randint(18, 26)
        body: list = []
        for _ in range(n):
            self.uid += 1
            kw = self.kw()
            if heavy and 'solver' in kw:
                kw['solver'] = rng.choice(['cg40', 'cg41', 'cg500'])  # keep compiles bounded
            body.append(['BLOCK', self.uid, kw, [['CREATE', rng.choice(['single:A', 'single:B'])]]])
            if self.task and rng.random() < 0.1:
                body.append(['SLEEP', 0])
        for k in range(rng.randint(3, 8)):
            # own handles from the oldest: -n is the first one created
            idx = -(n - rng.randint(0, min(5, n - 1)))
            body.append(['ROUNDTRIP', idx, rng.choice(['flatten', 'reduce', 'transpose'])])
            if heavy:
                body.append(['APPLY', idx, 'eager', None])
        return body

    def churn(self) -> list:
        rng = self.rng
        heavy = self.sw['heavy']
        body: list = []
        for _ in range(rng.randint(15, 40) if not heavy else rng.randint(10, 18)):
            self.uid += 1
            kw = self.kw()
            if heavy and 'solver' in kw:
                kw['solver'] = rng.choice(['cg40', 'cg41', 'cg500', 'cg40!'])
            inner: list = [['CREATE', rng.choice(['single:A', 'single:B', 'single:T'])]]
            if heavy:
                inner.append(['APPLY', -1, 'eager', None])
            else:
                inner.append(['ROUNDTRIP', -1, 'flatten'])
                inner.append(['DROP', -2])
            inner.append(['DROP', -1])
            if rng.random() < 0.3:
                inner.insert(0, ['READ'])
            body.append(['BLOCK', self.uid, kw, inner])
        return body

    def siblings(self, depth: int) -> list:
        """Two inverses whose configurations differ in one setting only, applied through one and the same
        jitted function (shared traces keyed on the operator's static part)."""
        rng = self.rng
        self.uid += 1
        outer_uid = self.uid
        self.uid += 1
        inner_uid = self.uid
        shape = rng.choice(['single:A', 'single:B', 'expr:AB'])
        one = rng.choice([{'options': rng.choice(['P', 'Y', 'S', 'Z'])}, {'throw': False}, {'solver': rng.choice(['cg40', 'cg41'])}, {'options': 'P'}])
        mode = rng.choice(['fjit', 'jarg', 'fjit', 'jit'])
        inner = ['BLOCK', inner_uid, one, [['CREATE', shape]]]
        body = [['CREATE', shape], inner, ['APPLY', -2, mode, None], ['APPLY', -1, mode, None], ['APPLY', -2, mode, None]]
        if rng.random() < 0.5:
            return [['BLOCK', outer_uid, self.kw(), body]]
        return body

    def tower(self) -> list:
        """A chain of nested blocks, reads on the way down, an exception at the bottom that is
        caught somewhere in the middle (or kills the actor), reads on the way up."""
        rng = self.rng
        height = rng.randint(10, 40)
        catch_at = rng.randint(0, height - 1)
        raises = bool(self.faults) and ('raise_exc' in self.faults or 'raise_base' in self.faults)
        kind = rng.choice(RAISES_EXC if 'raise_exc' in self.faults else RAISES_BASE) if raises else None
        inner: list = [['READ']]
        if kind is not None:
            inner.append(['RAISE', kind])
        for level in reversed(range(height)):
            self.uid += 1
            block = ['BLOCK', self.uid, self.kw(), inner + ([['READ']] if kind is None else [])]
            body: list = [['READ'], block, ['READ']]
            if kind is not None and level == catch_at:
                body = [['READ'], ['TRY', [block], 'base' if kind not in ('cancelled',) else ('cancel' if self.task else 'base')], ['READ']]
            if self.task and rng.random() < 0.2:
                body.insert(1, ['SLEEP', rng.choice(SLEEPS)])
            inner = body
        return inner

    # -- bodies
    def body(self, depth: int, budget: int, sync: bool, in_try: bool, top: bool = False) -> list:
        rng = self.rng
        out: list = []
        pending_joins: list[int] = []
        while budget > 0:
            stmt, cost = self.stmt(depth, budget, sync, in_try)
            budget -= cost
            if stmt is None:
                continue
            if isinstance(stmt, tuple) and stmt[0] == 'SPLICE':
                out.extend(stmt[1])
                continue
            out.append(stmt)
            if stmt[0] == 'SPAWN':
                if rng.random() < 0.7:
                    pending_joins.append(stmt[1])
            if pending_joins and rng.random() < 0.3:
                out.append(['JOIN', pending_joins.pop(0)])
            if stmt[0] == 'RAISE':
                if rng.random() < 0.7:
                    break
        for cid in pending_joins:
            if rng.random() < 0.6:
                out.append(['JOIN', cid])
        return out

    def stmt(self, depth: int, budget: int, sync: bool, in_try: bool):
        rng = self.rng
        sw = self.sw
        heavy = sw['heavy']
        w: dict[str, float] = {'READ': 3.0, 'CREATE': 2.0 if heavy else 0.9, 'BADCONFIG': 0.4, 'CONSTRUCT': 0.5}
        if depth < sw['depth'] and budget >= 2:
            w['BLOCK'] = 6.0 if depth == 0 else 4.0
        w['PREBUILD'] = 0.5
        if self.prebuilt and depth < sw['depth'] and budget >= 2:
            w['ENTER'] = 2.5
        if budget >= 2:
            w['TRY'] = 1.5 if self.faults else 0.3
            w['CTXRUN'] = 0.7
        if heavy:
            w['APPLY'] = 4.0
            if sw['jit'] and budget >= 6 and depth + 2 <= sw['depth'] + 1:
                w['SIBLINGS'] = 0.8
        w['ROUNDTRIP'] = 0.8
        w['DROP'] = 0.3
        if 'raise_exc' in self.faults and (in_try or 'death' in self.faults):
            w['RAISE_exc'] = 0.5 + 0.5 * min(depth, 3)
        if 'raise_base' in self.faults and (in_try or 'death' in self.faults):
            w['RAISE_base'] = 0.25 + 0.25 * min(depth, 3)
        can_spawn = self.spawned < 4 and budget >= 3 and not (sync and self.task)
        if can_spawn:
            w['SPAWN'] = 1.2 if depth == 0 else 1.8
        if self.task and not sync:
            w['SLEEP'] = 4.0
            w['CALLSOON'] = 0.6
            if budget >= 2:
                w['TOTHREAD'] = 0.6
                w['TIMEOUT'] = 1.0 if 'timeout' in self.faults else 0.3
        kinds = list(w)
        kind = rng.choices(kinds, [w[k] for k in kinds])[0]

        if kind == 'BLOCK':
            self.uid += 1
            uid = self.uid
            kw = self.kw()
            inner = rng.randint(1, max(1, budget - 1))
            self.kw_stack.append(kw)
            try:
                return ['BLOCK', uid, kw, self.body(depth + 1, inner, sync, in_try)], inner + 1
            finally:
                self.kw_stack.pop()
        if kind == 'SIBLINGS':
            return ('SPLICE', self.siblings(depth)), 6
        if kind == 'READ':
            return ['READ'], 1
        if kind == 'CREATE':
            self.creates += 1
            shapes = list(SHAPES) if heavy else list(SHAPES[:-1])
            return ['CREATE', rng.choice(shapes)], 1
        if kind == 'APPLY':
            modes = ['eager'] * 4 + (['jit', 'jit', 'fjit', 'fjit', 'jarg', 'jarg'] if sw['jit'] else [])
            fault = None
            roll = rng.random()
            if 'seam' in self.faults and roll < 0.12:
                fault = rng.choice(['seam-mem', 'seam-rt'])
            elif 'stdout' in self.faults and roll < 0.3:
                fault = 'stdout'
            if fault is not None and not (in_try or 'death' in self.faults):
                fault = None
            return ['APPLY', rng.randint(0, 7), rng.choice(modes), fault], 1
        if kind == 'DROP':
            return ['DROP', rng.choice([-1, -1, -2, rng.randint(0, 7)])], 1
        if kind == 'ROUNDTRIP':
            return ['ROUNDTRIP', rng.randint(0, 7), rng.choice(ROUNDTRIPS)], 1
        if kind == 'TRY':
            inner = rng.randint(1, max(1, budget - 1))
            catches = ['exc', 'base', 'base']
            if self.task and 'cancel' in self.faults:
                catches += ['cancel', 'cancel']
            return ['TRY', self.body(depth, inner, sync, True), rng.choice(catches)], inner + 1
        if kind == 'RAISE_exc':
            return ['RAISE', rng.choice(RAISES_EXC)], 1
        if kind == 'RAISE_base':
            return ['RAISE', rng.choice(RAISES_BASE)], 1
        if kind == 'BADCONFIG':
            return ['BADCONFIG'], 1
        if kind == 'CONSTRUCT':
            self.uid += 1
            return ['CONSTRUCT', self.uid, self.kw()], 1
        if kind == 'PREBUILD':
            self.uid += 1
            self.prebuilt.append(self.uid)
            return ['PREBUILD', self.uid, self.kw()], 1
        if kind == 'ENTER':
            uid = self.prebuilt.pop(rng.randrange(len(self.prebuilt)))
            inner = rng.randint(1, max(1, budget - 1))
            return ['ENTER', uid, self.body(depth + 1, inner, sync, in_try)], inner + 1
        if kind == 'SPAWN':
            self.spawned += 1
            cid = self.next_cid
            self.next_cid += 1
            inner = rng.randint(2, max(2, budget - 1))
            # a child is a new actor: depth restarts, it is not inside the parent's TRY, and it
            # cannot see the parent's prebuilt Config objects
            saved, self.prebuilt = self.prebuilt, []
            child = self.body(0, inner, False, False)
            self.prebuilt = saved
            return ['SPAWN', cid, child, rng.random() < 0.25], inner + 1
        if kind == 'CTXRUN':
            inner = rng.randint(1, max(1, budget - 1))
            first = self.body(depth, inner, True, in_try)
            if rng.random() < 0.3:
                # the same Context object runs a second job afterwards
                return ['CTXRUN', first, self.body(depth, max(1, inner // 2), True, in_try)], inner + 1 + max(1, inner // 2)
            return ['CTXRUN', first], inner + 1
        if kind == 'SLEEP':
            return ['SLEEP', rng.choice(SLEEPS)], 1
        if kind == 'CALLSOON':
            return ['CALLSOON'], 1
        if kind == 'TOTHREAD':
            inner = rng.randint(1, max(1, min(6, budget - 1)))
            return ['TOTHREAD', self.body(depth, inner, True, in_try), rng.random() < 0.3], inner + 1
        if kind == 'TIMEOUT':
            inner = rng.randint(1, max(1, budget - 1))
            d = rng.choice([0.0005, 0.005, 0.2, 5, 100]) if 'timeout' in self.faults else 1e6
            return ['TIMEOUT', d, self.body(depth, inner, sync, in_try)], inner + 1
        raise AssertionError(kind)


def generate(seed: int, profile: dict | None = None) -> dict:
    """The whole spec of run `seed`: swarm, programs, cancel plan. Pure function of (seed, profile)."""
    profile = profile or {}
    rng = random.Random(seed)
    swarm = gen_swarm(rng, profile)
    gen = _Gen(rng, swarm)
    programs = []
    for i in range(swarm['actors']):
        if swarm['witness'] and i == swarm['actors'] - 1 and swarm['actors'] > 1:
            n = rng.randint(2, 8)
            body: list = []
            for _ in range(n):
                body.append(['READ'])
                if gen.task:
                    body.append(['SLEEP', rng.choice(SLEEPS)])
            programs.append(body)
        else:
            gen.prebuilt = []
            if swarm['tower'] and i == 0:
                programs.append(gen.tower())
            elif swarm['hoard'] and i == 0:
                programs.append(gen.hoard())
            elif swarm['churn'] and i == swarm['actors'] - 1:
                programs.append(gen.churn())
            else:
                programs.append(gen.body(0, swarm['budget'], False, False, top=True))
    spec = {
        'version': 1,
        'seed': seed,
        'world': swarm['world'],
        'swarm': swarm,
        'programs': programs,
        'cancels': [],
        'async_at': [],
        'decisions': None,
    }
    if swarm['fine'] and 'async_exc' in gen.faults:
        n_stmts = sum(1 for p in programs for _ in iter_statements(p))
        for _ in range(rng.choice([1, 1, 2])):
            spec['async_at'].append(rng.randint(1, max(4, 6 * n_stmts)))
        spec['async_at'] = sorted(set(spec['async_at']))
    if gen.task and 'cancel' in gen.faults:
        ids = actor_ids(spec)
        horizon = _horizon(programs)
        for _ in range(rng.choice([1, 1, 2, 3])):
            t = round(rng.uniform(0, max(horizon, 0.01)), 4)
            spec['cancels'].append([t, rng.choice(ids)])
        spec['cancels'].sort()
    return spec


def _horizon(programs: list) -> float:
    best = 0.0
    for prog in programs:
        total = 0.0
        for stmt in iter_statements(prog):
            if stmt[0] == 'SLEEP':
                total += stmt[1]
        best = max(best, total)
    return best
