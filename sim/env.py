"""Process environment for simulator processes.

Must be imported (and `setup()` called) before jax / furax are imported.  Pins
everything a run's outcome could otherwise pick up from the caller's environment
(DESIGN.md 3.4) and makes `furax` come from the working tree under test.
"""

import os
import sys

VERIF_ROOT = os.path.dirname(os.path.dirname(os.path.abspath(__file__)))
DEFAULT_SRC = '/repo/src'

_PINNED = {
    'JAX_PLATFORMS': 'cpu',
    'EQX_ON_ERROR': 'raise',
    'OMP_NUM_THREADS': '1',
    'OPENBLAS_NUM_THREADS': '1',
    'MKL_NUM_THREADS': '1',
    'XLA_FLAGS': '--xla_cpu_multi_thread_eigen=false intra_op_parallelism_threads=1',
    'JAX_ENABLE_X64': '0',
    'TF_CPP_MIN_LOG_LEVEL': '3',
}

_done = False


def furax_src() -> str:
    return os.path.realpath(os.environ.get('FURAX_SRC', DEFAULT_SRC))


def pin_environment() -> None:
    for key, value in _PINNED.items():
        os.environ[key] = value


def reexec_with_hashseed() -> None:
    """Re-executes the interpreter once with PYTHONHASHSEED=0 (CLI entry points only)."""
    if os.environ.get('PYTHONHASHSEED') is None:
        env = dict(os.environ)
        env['PYTHONHASHSEED'] = '0'
        os.execve(sys.executable, [sys.executable] + sys.argv, env)


def setup() -> str:
    """Pins the environment, puts the tree under test first on sys.path, imports furax."""
    global _done
    src = furax_src()
    if _done:
        return src
    pin_environment()
    if VERIF_ROOT not in sys.path:
        sys.path.insert(0, VERIF_ROOT)
    if sys.path[0] != src:
        sys.path.insert(0, src)
    import furax  # noqa: E402

    where = os.path.realpath(furax.__file__)
    if not where.startswith(src + os.sep):
        raise RuntimeError(f'furax imported from {where}, expected under {src}')
    import logging

    # jax logs a traceback for every exception a debug callback raises; ours are injected on purpose
    for name in ('jax._src.debugging', 'jax', 'asyncio'):
        logging.getLogger(name).setLevel(logging.CRITICAL)
    _done = True
    return src
