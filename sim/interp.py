"""Interpreters for both worlds, online shadow oracle, fault seams, event log.

Programs (sim.program) are executed with genuine `with Config(**kw) as c:` /
`try` / `raise` statements against the real furax code.  The interpreter keeps, per
context, its own model stack maintained by its own try/finally (independent of
`Config.__exit__`) and checks every observation against it as the run proceeds.
"""

from __future__ import annotations

import asyncio
import contextvars
import random
import sys
import threading
import traceback
from collections import Counter
from typing import Any

from . import model, palette, sched, vloop
from .model import DEFAULT, merge
from .sched import Abort, HarnessError, tls

WATCHDOG_S = 90.0


class SimFault(Exception):
    """F1: a user exception raised by a program."""


class SimBaseFault(BaseException):
    """F2: a BaseException (KeyboardInterrupt-like) raised by a program."""


class CallbackFault(Exception):
    """F6: raised by a harness callback."""


class SimAsyncFault(BaseException):
    """F12: an asynchronous exception arriving between two lines of library code."""


# what RAISE can raise: the property says "through an exception", so the class must not matter
RAISE_KINDS = {
    'exc': SimFault,
    'value': ValueError,
    'key': KeyError,
    'timeouterr': TimeoutError,
    'mem': MemoryError,
    'base': SimBaseFault,
    'genexit': GeneratorExit,
    'kbd': KeyboardInterrupt,
    'sysexit': SystemExit,
    'cancelled': asyncio.CancelledError,
}
EXC_KINDS = ('exc', 'value', 'key', 'timeouterr', 'mem')
BASE_LABELS = ('base', 'genexit', 'kbd', 'sysexit', 'cancelled', 'SimBaseFault', 'SimAsyncFault', 'CancelledError')


def _mark_expected(exc: BaseException) -> None:
    try:
        exc._sim_expected = True  # type: ignore[attr-defined]
    except Exception:  # pragma: no cover
        pass


def is_expected(exc: BaseException) -> bool:
    if isinstance(exc, (SimFault, SimBaseFault, SimAsyncFault, CallbackFault, asyncio.CancelledError)):
        return True
    return bool(getattr(exc, '_sim_expected', False))


_ADDR = None


def exc_text(exc: BaseException) -> str:
    """repr of an exception without memory addresses (they would make digests unstable)."""
    global _ADDR
    import re

    if _ADDR is None:
        _ADDR = re.compile(r'0x[0-9a-fA-F]+')
    return _ADDR.sub('0x?', f'{type(exc).__name__}: {exc}')[:400]


def exc_label(exc: BaseException) -> str:
    """A stable label for logs (class names of errors surfaced by JAX are not stable)."""
    label = getattr(exc, '_sim_label', None)
    if isinstance(label, str):
        return label
    if isinstance(exc, (SimFault, SimBaseFault, SimAsyncFault, CallbackFault, asyncio.CancelledError, TimeoutError, Abort)):
        return type(exc).__name__
    if getattr(exc, '_sim_expected', False):
        return 'ApplyError'
    return type(exc).__name__


def drive(coro):
    """Runs a coroutine that never suspends (synchronous frames)."""
    try:
        coro.send(None)
    except StopIteration as stop:
        return stop.value
    coro.close()
    raise HarnessError('a synchronous frame suspended')


# ----------------------------------------------------------------------------- process-wide seams
class _LxProxy:
    """Stands in for the name `lx` inside furax._base.core (F4 seam); pass-through otherwise."""

    def __init__(self, real):
        object.__setattr__(self, '_real', real)

    def __getattr__(self, name):
        return getattr(object.__getattribute__(self, '_real'), name)

    def linear_solve(self, *args, **kwargs):
        armed = getattr(tls, 'seam', None)
        if armed is not None and not armed['fired']:
            armed['fired'] = True
            if armed['kind'] == 'seam-mem':
                exc: Exception = MemoryError('simulated allocation failure in linear_solve')
            else:
                exc = RuntimeError('simulated runtime failure in linear_solve')
            _mark_expected(exc)
            raise exc
        return object.__getattribute__(self, '_real').linear_solve(*args, **kwargs)


class _FakeStdout:
    """sys.stdout during runs (F5 seam): collects the default callback's lines per thread."""

    def __init__(self, real):
        self._real = real

    def write(self, text):
        sink = getattr(tls, 'sink', None)
        if sink is None:
            return self._real.write(text)
        armed = getattr(tls, 'stdout_fault', None)
        if armed is not None and not armed['fired']:
            armed['fired'] = True
            exc = BrokenPipeError('simulated broken pipe on stdout')
            _mark_expected(exc)
            raise exc
        if text.strip():
            sink.append(('stdout', text.strip()))
        return len(text)

    def flush(self):
        if getattr(tls, 'sink', None) is None:
            self._real.flush()

    def __getattr__(self, name):
        return getattr(self._real, name)


_seams_installed = False


def install_seams() -> None:
    global _seams_installed
    if _seams_installed:
        return
    from furax._base import core as core_mod

    if not isinstance(core_mod.lx, _LxProxy):
        core_mod.lx = _LxProxy(core_mod.lx)
    if not isinstance(sys.stdout, _FakeStdout):
        sys.stdout = _FakeStdout(sys.stdout)
    _install_lock_seam()
    _seams_installed = True


# -- lock seam ------------------------------------------------------------------------------------
# furax has no lock today.  An implementation that adds one (around a cache, a table of states) must
# not wedge the baton: a thread parked by the line monitor while holding a real lock would block the
# next actor that wants it, with the baton in hand.  So every lock the configuration modules own, or
# create later through their `threading` name, becomes a cooperative lock: an actor that finds it taken
# hands the baton on instead of blocking.

class SimLock:
    def __init__(self, reentrant: bool = False):
        self._reentrant = reentrant
        self._owner = None  # threading.get_ident() of the holder
        self._count = 0
        self._guard = threading.Lock()

    def _try(self) -> bool:
        me = threading.get_ident()
        with self._guard:
            if self._owner is None:
                self._owner, self._count = me, 1
                return True
            if self._reentrant and self._owner == me:
                self._count += 1
                return True
            return False

    def acquire(self, blocking: bool = True, timeout: float = -1) -> bool:
        if self._try():
            return True
        if not blocking:
            return False
        fr = getattr(tls, 'frame', None)
        actor = getattr(tls, 'actor', None)
        run = actor.run if actor is not None else None
        spins = 0
        while not self._try():
            spins += 1
            if run is not None and run.sched is not None and fr is not None and not run.aborting:
                run.probe('lock_contended_baton_passed_on')
                run.sched.yield_to_other(actor.slot)  # raises HarnessError if nobody else can run
            else:
                import time as _time

                _time.sleep(0.0005)  # not under the scheduler (task world helper threads): plain wait
            if spins > 200_000:
                raise HarnessError('SimLock: could not acquire (deadlock in the code under test?)')
        return True

    def release(self) -> None:
        with self._guard:
            if self._owner is None:
                raise RuntimeError('release unlocked lock')
            self._count -= 1
            if self._count == 0:
                self._owner = None

    def locked(self) -> bool:
        return self._owner is not None

    def __enter__(self):
        self.acquire()
        return True

    def __exit__(self, *exc):
        self.release()
        return False


class _ThreadingProxy:
    """Stands in for the name `threading` inside furax's configuration modules."""

    def __init__(self, real):
        object.__setattr__(self, '_real', real)

    def __getattr__(self, name):
        return getattr(object.__getattribute__(self, '_real'), name)

    def Lock(self):  # noqa: N802
        return SimLock(False)

    def RLock(self):  # noqa: N802
        return SimLock(True)


def _install_lock_seam() -> None:
    import _thread
    import types

    from furax._base import blocks as blocks_mod
    from furax._base import config as config_mod
    from furax._base import core as core_mod

    lock_types = (_thread.LockType, type(threading.RLock()))

    def swap_in(holder_dict_get, holder_set, names):
        for name in names:
            value = holder_dict_get(name)
            if isinstance(value, lock_types):
                holder_set(name, SimLock(not isinstance(value, _thread.LockType)))

    for mod in (config_mod, core_mod, blocks_mod):
        names = list(vars(mod))
        swap_in(lambda n, mod=mod: vars(mod).get(n), lambda n, v, mod=mod: setattr(mod, n, v), names)
        if isinstance(vars(mod).get('threading'), types.ModuleType):
            mod.threading = _ThreadingProxy(mod.threading)
        for obj in list(vars(mod).values()):
            if getattr(obj, '__module__', None) != mod.__name__:
                continue
            if isinstance(obj, type):
                # class-level locks
                for n, v in list(vars(obj).items()):
                    if isinstance(v, lock_types):
                        setattr(obj, n, SimLock(not isinstance(v, _thread.LockType)))
            d = getattr(obj, '__dict__', None)
            if isinstance(d, dict) and not isinstance(obj, (type, types.ModuleType, types.FunctionType)):
                # module-level instances holding a lock (e.g. a table object created at import time)
                for n, v in list(d.items()):
                    if isinstance(v, lock_types):
                        try:
                            setattr(obj, n, SimLock(not isinstance(v, _thread.LockType)))
                        except Exception:  # pragma: no cover - frozen objects keep their lock
                            pass


def real_stdout():
    out = sys.stdout
    return out._real if isinstance(out, _FakeStdout) else out


# ----------------------------------------------------------------------------- run-time records
class Handle:
    __slots__ = ('h', 'shape', 'ops', 'exact', 'caps', 'op', 'creator', 'creator_ctx', 'jitfn', 'jit_ctx_entry', 'structural')

    def __init__(self, h, shape, ops, exact, caps, op, creator, creator_ctx):
        self.h = h
        self.shape = shape
        self.ops = ops
        self.exact = exact
        self.caps = caps
        self.op = op
        self.creator = creator
        self.creator_ctx = creator_ctx
        self.jitfn = None
        self.jit_ctx_entry = None
        self.structural = True


class Actor:
    def __init__(self, run: 'Run', aid: int, program: list, root_ctx: str, parent: 'Actor | None'):
        self.run = run
        self.aid = aid
        self.program = program
        self.root_ctx = root_ctx
        self.parent = parent
        self.slot: sched.Slot | None = None
        self.thread: threading.Thread | None = None
        self.task: asyncio.Task | None = None
        self.own_handles: list[int] = []
        self.status = 'new'
        self.depth_now = 0  # open blocks in the currently executing frame chain
        self.open_uids: list[int] = []
        self.in_callback = False
        self.prebuilt: dict[int, tuple] = {}


class Frame:
    __slots__ = ('actor', 'ctx', 'sync')

    def __init__(self, actor: Actor, ctx: str, sync: bool):
        self.actor = actor
        self.ctx = ctx
        self.sync = sync


class Run:
    """One simulated execution of a spec."""

    _tokens = 0

    def __init__(self, spec: dict, watchdog_s: float = WATCHDOG_S):
        from furax import Config

        self.Config = Config
        self.spec = spec
        self.world = spec['world']
        self.sw = spec.get('swarm', {})
        self.fine = bool(self.sw.get('fine')) and self.world == 'thread' and sched.monitoring_available()
        # ultra: pre-emption (and F12) between any two *bytecodes* of the library functions, not only lines
        self.ultra = self.fine and bool(self.sw.get('ultra'))
        self.park_cb = bool(self.sw.get('park_cb')) and self.world == 'thread'
        self.share = bool(self.sw.get('share', True))
        self.watchdog_s = watchdog_s
        self.thread_inherits = bool(getattr(sys.flags, 'thread_inherit_context', False))

        self.events: list = []
        self.seq = 0
        self.violation: dict | None = None
        self.harness_error: str | None = None
        self.aborting = False

        self.stacks: dict[str, list[dict]] = {}
        self.ref = model.RefConfig(self.thread_inherits)  # classification metadata only
        self.ctx_count = 0
        self.actors: dict[int, Actor] = {}
        self.handles: list[Handle] = []
        self.fjit = None
        self.jarg = None
        self.table: dict[str, list] = {}
        self.shared_options: dict | None = None
        self.shared_callbacks: dict = {}
        self.cells: dict = {}
        Run._tokens += 1
        self.token = Run._tokens
        _RUNS[self.token] = self
        self.async_at = set(spec.get('async_at') or []) if self.fine else set()
        self.async_pending = False
        self.line_events = 0

        self.probes: Counter = Counter()
        self.faults: Counter = Counter()
        self.stmts = 0
        self.states: set = set()
        self.trace_sig: list = []  # (actor, kind, depth) triples: interleaving signature
        self.sim_seconds = 0.0
        self.clock_jumps = 0
        self.orphan_callbacks = 0

        self.sched: sched.Scheduler | None = None
        self.loop = None
        self.tasks: list[asyncio.Task] = []
        self.lock = threading.Lock()

    # ------------------------------------------------------------------ logging & verdicts
    def log(self, fr: Frame | None, kind: str, data: dict, aid: int | None = None, ctx: str | None = None) -> int:
        self.seq += 1
        a = fr.actor.aid if fr is not None else aid
        c = fr.ctx if fr is not None else ctx
        self.events.append([self.seq, a, c, kind, data])
        depth = len(self.stacks.get(c, ())) - 1 if c is not None else 0
        self.trace_sig.append((a, kind, depth))
        return self.seq

    def probe(self, name: str, n: int = 1) -> None:
        self.probes[name] += n

    def violate(self, fr: Frame | None, clause: str, detail: dict) -> None:
        """Records the first violation, stops the run, unwinds the caller."""
        if self.violation is None and not self.aborting:
            self.violation = {
                'clause': clause,
                'seq': self.seq,
                'actor': fr.actor.aid if fr is not None else None,
                'ctx': fr.ctx if fr is not None else None,
                'detail': detail,
            }
        self.stop()
        raise Abort()

    def stop(self) -> None:
        self.aborting = True
        if self.sched is not None:
            self.sched.abort = True

    def harness_fail(self, exc: BaseException) -> None:
        if self.violation is not None:
            return  # the run already has its verdict; what breaks while it unwinds does not count
        if self.harness_error is None:
            self.harness_error = ''.join(traceback.format_exception(type(exc), exc, exc.__traceback__))[-4000:]
        self.stop()

    # ------------------------------------------------------------------ contexts
    def new_ctx(self, fr: Frame | None, mode: str, aid: int) -> str:
        self.ctx_count += 1
        cid = f'x{self.ctx_count}'
        parent = fr.ctx if fr is not None else None
        if parent is None or (mode == 'thread' and not self.thread_inherits) or mode in ('taskfresh', 'executor'):
            base = dict(DEFAULT)
        else:
            base = dict(self.stacks[parent][-1])
        self.stacks[cid] = [base]
        self.ref.ctxnew(parent, cid, mode)
        self.log(fr, 'ctxnew', {'parent': parent, 'new': cid, 'mode': mode, 'for': aid}, aid=aid, ctx=parent)
        return cid

    def top(self, fr: Frame) -> dict:
        return self.stacks[fr.ctx][-1]

    # ------------------------------------------------------------------ observation
    def quiet_read(self, fr: Frame | None) -> dict:
        """Harness-owned read: not a pre-emption point."""
        tls.quiet = getattr(tls, 'quiet', 0) + 1
        try:
            state = self.Config.instance()
        except Abort:
            raise
        except BaseException as exc:  # noqa: BLE001
            tls.quiet -= 1
            self.log(fr, 'error', {'clause': 'N', 'site': 'instance', 'why': exc_text(exc)}, aid=-1)
            self.violate(fr, 'N', {'site': 'instance', 'why': exc_text(exc)})
            raise  # unreachable
        tls.quiet -= 1
        return palette.observe(state)

    def expect(self, fr: Frame, site: str, obs: dict, exp: dict, extra: dict | None = None) -> None:
        if obs == exp:
            return
        clause = self.ref.classify(fr.ctx, site, obs, exp)
        detail = {'site': site, 'diff': model.diff(obs, exp)}
        if extra:
            detail.update(extra)
        self.violate(fr, clause, detail)

    # ------------------------------------------------------------------ scheduling glue
    async def yp(self, fr: Frame, kind: str) -> None:
        """Yield point between statements (thread world: baton; task world: nothing implicit)."""
        if self.aborting:
            raise Abort()
        if self.world != 'thread':
            return
        self.thread_point(fr, kind)

    def thread_point(self, fr: Frame, kind: str) -> None:
        actor = fr.actor
        box: list = []

        def before_park() -> None:
            # what this actor sees right before it is parked ...
            box.append(self.quiet_read(fr))
            box.append(self._others_open(actor))

        switched = self.sched.point(actor.slot, kind, before_park)
        if switched:
            before, others_open = box  # ... must be what it sees when it resumes
            self.probe('switch')
            if others_open and len(self.stacks[fr.ctx]) > 1:
                self.probe('switch_with_two_actors_in_blocks')
            if actor.in_callback:
                self.probe('parked_in_callback_while_others_ran')
            after = self.quiet_read(fr)
            if after != before:
                self.log(fr, 'read', {'obs': after, 'why': 'resume'})
                clause = self.ref.classify(fr.ctx, 'I', after, before)
                self.violate(fr, 'I' if clause == 'I' else 'I', {'site': 'resume', 'point': kind, 'diff': model.diff(after, before)})

    def _others_open(self, actor: Actor) -> bool:
        for other in self.actors.values():
            if other is not actor and other.status == 'running' and other.open_uids:
                return True
        return False

    def note_state(self) -> None:
        key = []
        for ctx in sorted(self.stacks):
            st = self.stacks[ctx]
            if len(st) > 1:
                key.append(tuple(model.abstract_entry(e) for e in st))
        key.sort()
        # the *set* of abstracted captured configurations of the live handles (not the multiset: a run
        # that creates the same kind of inverse ten times is not in ten different states)
        caps = sorted({model.abstract_entry(c) for h in self.handles for c in h.caps})
        self.states.add((self.world, tuple(key), tuple(caps)))

    def on_line(self, actor: Actor, code, line: int) -> None:
        """sys.monitoring LINE event inside the library's configuration code (fine mode)."""
        if self.aborting or actor.status != 'running' or actor.slot is None:
            return
        fr = getattr(tls, 'frame', None)
        if fr is None:
            return
        if not _trace_state_clean():
            # library code running under a JAX trace (e.g. an operator's mv traced inside lineax's
            # jitted solve): JAX holds a per-function compilation lock there, so parking the thread
            # would wedge every other actor that calls the same jitted function.  Not a yield point.
            self.probe('diag:line_skipped_under_jax_trace')
            return
        if self.ultra:
            # `line` is a bytecode offset here
            self.probe(f'instr:{code.co_name}')
            where = f'@{line}'
        else:
            self.probe(f'line:{code.co_name}')
            where = f'+{line - code.co_firstlineno}'
        if self.async_at:
            self.line_events += 1
            if self.line_events in self.async_at:
                self.async_pending = True
            if self.async_pending and _async_safe_here():
                # F12: never inside __enter__/__exit__ (or anything they call): an asynchronous
                # exception there defeats every context manager, so injecting it would be a false alarm
                self.async_pending = False
                self.faults['async_exc'] += 1
                self.log(fr, 'fault', {'kind': 'async_exc', 'in': code.co_name, 'at': where, 'depth': len(self.stacks[fr.ctx]) - 1})
                raise SimAsyncFault(f'{code.co_name}{where}')
        before = self.sched.switches
        try:
            self.thread_point(fr, 'line')
        except Abort:
            pass
        if self.sched.switches != before:
            # a context switch happened between two lines of library code, here:
            self.probe(f'preempted:{code.co_name}:{where}' if not self.ultra else f'preempted_between_bytecodes:{code.co_name}')

    # ------------------------------------------------------------------ settings
    def build_kw(self, uid: int, kwspec: dict) -> dict:
        kw: dict[str, Any] = {}
        for name, val in kwspec.items():
            if name == 'solver':
                tag = model.delta_for_block(uid, {'solver': val})['solver']
                kw['solver'] = palette.solver_for(tag, fresh=val.endswith('!'))
            elif name == 'throw':
                kw['solver_throw'] = bool(val)
            elif name == 'options':
                if val == 'S':
                    if self.shared_options is None:
                        self.shared_options = palette.make_options('P', 0)
                    kw['solver_options'] = self.shared_options
                elif val == 'Z':
                    kw['solver_options'] = {}
                else:
                    kw['solver_options'] = palette.make_options(val, uid)
            elif name == 'callback':
                if val == 'D':
                    from furax._base.config import default_solver_callback

                    kw['solver_callback'] = default_solver_callback
                elif val in ('k0', 'k1'):
                    if val not in self.shared_callbacks:
                        self.shared_callbacks[val] = self.make_callback(val, False)
                    kw['solver_callback'] = self.shared_callbacks[val]
                else:
                    kw['solver_callback'] = self.make_callback(f'c{uid}' if val == 'u' else f'r{uid}', val == 'R')
        return kw

    def make_callback(self, tag: str, raising: bool):
        """A tagged callback; the flavour (closure, functools.partial, callable instance, bound
        method) rotates with the tag so that nothing depends on callbacks being plain functions.

        A callback holds nothing but plain data (a token naming this run, its tag, and a private
        mutable *cell*), so it survives copy.deepcopy -- but a copy carries a copy of the cell, and the
        harness only counts a firing whose cell is the one it handed out: "the configured callback" means
        that very object, not a clone of it.
        """
        import functools

        token = self.token
        cell = [tag]
        self.cells[tag] = cell
        digits = ''.join(ch for ch in tag if ch.isdigit())
        flavour = int(digits) % 4 if digits else 0
        if flavour == 1:
            cb = functools.partial(_fire, token, tag, raising, cell)
            cb.tag = tag  # type: ignore[attr-defined]
            return cb
        if flavour == 2:
            return _CallbackObject(token, tag, raising, cell)
        if flavour == 3:
            return _CallbackObject(token, tag, raising, cell).method

        def callback(solution):
            _fire(token, tag, raising, cell, solution)

        callback.tag = tag  # type: ignore[attr-defined]
        callback.__name__ = f'cb_{tag}'
        callback.__qualname__ = f'cb_{tag}'
        return callback

    def on_callback(self, tag: str, solution, raising: bool, cell: list | None = None) -> None:
        sink = getattr(tls, 'sink', None)
        if cell is not self.cells.get(tag):
            tag = tag + '~clone'  # a copy of the configured callback fired, not the callback itself
        try:
            rec = (tag, int(solution.stats['num_steps']), int(solution.stats['max_steps']))
        except Exception as exc:  # pragma: no cover - defensive
            rec = (tag, -1, -1)
            self.probe('callback_stats_unreadable:' + type(exc).__name__)
        if sink is None:
            with self.lock:
                self.orphan_callbacks += 1
            return
        sink.append(('cb',) + rec)
        if raising:
            self.faults['cb_raise'] += 1
            raise CallbackFault(tag)
        fr = getattr(tls, 'frame', None)
        if self.park_cb and fr is not None and not self.aborting and not getattr(tls, 'quiet', 0):
            if _inside_compiled_execution():
                # the callback was invoked by a running XLA executable (jit / filter_jit apply, or an
                # inner inverse inside lineax's compiled solve).  On the first call of a jitted function
                # JAX holds that function's cache-miss lock while it executes, so parking here would
                # wedge any actor that calls the same function.  Only eager callbacks are yield points.
                self.probe('callback_inside_compiled_execution_not_parked')
                return
            actor = fr.actor
            actor.in_callback = True
            try:
                self.thread_point(fr, 'cb')
            except Abort:
                pass
            finally:
                actor.in_callback = False

    # ------------------------------------------------------------------ statements
    async def exec_body(self, fr: Frame, body: list, depth: int) -> None:
        for stmt in body:
            await self.exec_stmt(fr, stmt, depth)

    async def exec_stmt(self, fr: Frame, stmt: list, depth: int) -> None:
        await self.yp(fr, 'stmt')
        self.stmts += 1
        self.note_state()
        kind = stmt[0]
        if kind == 'BLOCK':
            await self.do_block(fr, stmt, depth)
        elif kind == 'READ':
            self.do_read(fr)
        elif kind == 'CREATE':
            self.do_create(fr, stmt)
            await self.yp(fr, 'post-create')
        elif kind == 'APPLY':
            self.do_apply(fr, stmt, depth)
        elif kind == 'ROUNDTRIP':
            self.do_roundtrip(fr, stmt)
        elif kind == 'DROP':
            self.do_drop(fr, stmt)
        elif kind == 'TRY':
            await self.do_try(fr, stmt, depth)
        elif kind == 'RAISE':
            self.do_raise(fr, stmt, depth)
        elif kind == 'BADCONFIG':
            self.do_badconfig(fr)
        elif kind == 'CONSTRUCT':
            self.do_construct(fr, stmt)
        elif kind == 'PREBUILD':
            self.do_prebuild(fr, stmt)
        elif kind == 'ENTER':
            await self.do_enter(fr, stmt, depth)
        elif kind == 'SPAWN':
            self.do_spawn(fr, stmt)
            await self.yp(fr, 'post-spawn')
        elif kind == 'JOIN':
            await self.do_join(fr, stmt)
        elif kind == 'CTXRUN':
            self.do_ctxrun(fr, stmt, depth)
        elif kind == 'SLEEP':
            await self.do_sleep(fr, stmt)
        elif kind == 'TIMEOUT':
            await self.do_timeout(fr, stmt, depth)
        elif kind == 'CALLSOON':
            self.do_callsoon(fr)
        elif kind == 'TOTHREAD':
            await self.do_tothread(fr, stmt, depth)
        else:
            raise HarnessError(f'unknown statement {kind}')

    # -- BLOCK ------------------------------------------------------------------------------
    async def do_block(self, fr: Frame, stmt: list, depth: int, pre: tuple | None = None) -> None:
        """`with Config(**kw) as c: body` -- or, for ENTER, `with <prebuilt Config object> as c: body`."""
        _, uid, kwspec, body = stmt
        Config = self.Config
        stack = self.stacks[fr.ctx]
        before = stack[-1]
        delta = model.delta_for_block(uid, kwspec)
        if pre is None:
            kw = self.build_kw(uid, kwspec)
            alts = [merge(before, delta)]
        else:
            # a Config object built earlier: whether its settings are resolved against the
            # configuration active at construction or at entry is not something C19 states, so both
            # are accepted (the current tree does the former); restore/isolation are demanded as ever
            pre_obj, pre_base = pre
            kw = {}
            alts = [merge(pre_base, delta), merge(before, delta)]
        actor = fr.actor
        body_exc: BaseException | None = None
        entered = False
        pushed = False
        how = 'normal'
        try:
            with (Config(**kw) if pre is None else pre_obj) as c:
                entered = True
                c_obs = palette.observe(c)
                new = next((a for a in alts if a == c_obs), alts[-1])
                stack.append(new)
                self.ref.enter(fr.ctx, uid, kwspec, new)
                actor.open_uids.append(uid)
                pushed = True
                try:
                    inst_obs = self.quiet_read(fr)
                    ev = {'uid': uid, 'kw': kwspec, 'c': c_obs, 'inst': inst_obs}
                    if pre is not None:
                        ev['pre'] = True
                        if alts[0] != alts[1]:
                            self.probe('prebuilt_entered_under_other_config')
                    self.log(fr, 'enter', ev)
                    if len(stack) - 1 >= 3:
                        self.probe('depth_ge_3')
                        if len(stack) - 1 >= 10:
                            self.probe('depth_ge_10')
                    self.expect(fr, 'S', c_obs, new, {'what': 'as-target', 'uid': uid})
                    self.expect(fr, 'S', inst_obs, new, {'what': 'instance', 'uid': uid})
                    await self.yp(fr, 'enter')
                    await self.exec_body(fr, body, depth + 1)
                    await self.yp(fr, 'pre-exit')
                except BaseException as exc:
                    body_exc = exc
                    raise
                finally:
                    stack.pop()
                    self.ref.exit(fr.ctx)
                    actor.open_uids.pop()
            if body_exc is not None and not isinstance(body_exc, Abort):
                self.probe('exception_swallowed_by_block')
        except Abort:
            raise
        except BaseException as exc:
            if exc is not body_exc and not (isinstance(exc, SimAsyncFault) and not entered):
                # raised by Config(...), __enter__ or __exit__ themselves
                if not self.aborting:
                    where = 'exit' if entered else 'construct/enter'
                    self.log(fr, 'error', {'clause': 'N', 'site': where, 'why': exc_text(exc)})
                    self.violate(fr, 'N', {'site': where, 'why': exc_text(exc), 'uid': uid})
            how = exc_label(exc)
            if entered:
                try:
                    n = getattr(exc, '_sim_unwound', 0) + 1
                    exc._sim_unwound = n  # type: ignore[attr-defined]
                    if n in (2, 5, 20):
                        self.probe(f'one_exception_unwound_{n}_blocks')
                except Exception:  # pragma: no cover
                    pass
            raise
        finally:
            if not self.aborting:
                obs = self.quiet_read(fr)
                if not entered:
                    # Config(...) itself was interrupted (F12): nothing was entered, nothing may change
                    self.log(fr, 'noenter', {'uid': uid, 'how': how, 'obs': obs})
                    self.expect(fr, 'S', obs, before, {'what': 'an interrupted Config(...) changed the active configuration', 'uid': uid})
                else:
                    self.log(fr, 'exit', {'uid': uid, 'how': how, 'obs': obs})
                    if how != 'normal':
                        self.probe('exit_by_exception')
                        self.probe('exit_by:' + how)
                        if how in BASE_LABELS:
                            self.probe('exit_by_base_exception')
                    self.expect(fr, 'R', obs, before, {'how': how, 'uid': uid})

    def do_prebuild(self, fr: Frame, stmt: list) -> None:
        _, uid, kwspec = stmt
        kw = self.build_kw(uid, kwspec)
        try:
            obj = self.Config(**kw)
        except (Abort, SimAsyncFault):
            raise
        except BaseException as exc:  # noqa: BLE001
            self.log(fr, 'error', {'clause': 'N', 'site': 'construct', 'why': exc_text(exc)})
            self.violate(fr, 'N', {'site': 'construct', 'why': exc_text(exc)})
            return
        obs = self.quiet_read(fr)
        self.log(fr, 'prebuild', {'uid': uid, 'kw': kwspec, 'obs': obs})
        self.expect(fr, 'S', obs, self.top(fr), {'what': 'a Config(...) that was not entered yet changed the active configuration'})
        fr.actor.prebuilt[uid] = (obj, dict(self.top(fr)), kwspec)

    async def do_enter(self, fr: Frame, stmt: list, depth: int) -> None:
        _, uid, body = stmt
        rec = fr.actor.prebuilt.pop(uid, None)
        if rec is None:
            self.log(fr, 'skip', {'stmt': 'ENTER'})
            return
        obj, base, kwspec = rec
        await self.do_block(fr, ['BLOCK', uid, kwspec, body], depth, pre=(obj, base))

    # -- READ -------------------------------------------------------------------------------
    def do_read(self, fr: Frame, why: str = 'stmt') -> None:
        try:
            state = self.Config.instance()  # pre-emptable in fine mode
        except (Abort, SimAsyncFault):
            raise
        except BaseException as exc:  # noqa: BLE001
            self.log(fr, 'error', {'clause': 'N', 'site': 'instance', 'why': exc_text(exc)})
            self.violate(fr, 'N', {'site': 'instance', 'why': exc_text(exc)})
            return
        obs = palette.observe(state)
        self.log(fr, 'read', {'obs': obs, 'why': why})
        self.expect(fr, 'read', obs, self.top(fr))

    # -- CREATE -----------------------------------------------------------------------------
    def visible(self, fr: Frame) -> list[Handle]:
        if self.share:
            return [h for h in self.handles if h.op is not None]
        own = set(fr.actor.own_handles)
        return [h for h in self.handles if h.h in own and h.op is not None]

    def do_drop(self, fr: Frame, stmt: list) -> None:
        vis = self.visible(fr)
        if not vis:
            self.log(fr, 'skip', {'stmt': 'DROP'})
            return
        handle = self.pick(fr, vis, stmt[1])
        if handle.op is None:
            self.log(fr, 'skip', {'stmt': 'DROP'})
            return
        self.log(fr, 'drop', {'h': handle.h})
        handle.op = None
        handle.jitfn = None
        self.probe('handle_dropped')

    def pick(self, fr: Frame, vis: list, k: int) -> 'Handle':
        """k >= 0: the k-th visible handle (mod count); k < 0: the |k|-th most recent handle this actor
        created or derived itself (so that a program can refer to "the inverse I have just made")."""
        if k < 0:
            own = fr.actor.own_handles
            if len(own) >= -k and self.handles[own[k]].op is not None:
                return self.handles[own[k]]
            k = -k
        return vis[k % len(vis)]

    def do_create(self, fr: Frame, stmt: list) -> None:
        from furax._base.blocks import BlockDiagonalOperator

        shape = stmt[1]
        inner: list[Handle] = []
        if shape == 'nested':
            cands = [h for h in self.visible(fr) if h.shape.startswith('single') and len(h.caps) == 1 and h.op is not None]
            if cands:
                inner = [cands[-1]]
            else:
                shape = 'single:A'
        try:
            if shape.startswith('single:'):
                opn = shape.split(':')[1]
                op = palette.operator(opn).I
                ops, fresh, exact = [opn], 1, True
            elif shape == 'blockdiag':
                op = BlockDiagonalOperator([palette.operator('A'), palette.operator('B')]).I
                ops, fresh, exact = ['A', 'B'], 2, True
            elif shape == 'blockdict':
                # dict-of-blocks container, and the `.inverse()` spelling
                op = BlockDiagonalOperator({'p': palette.operator('B'), 'q': palette.operator('A')}).inverse()
                ops, fresh, exact = ['B', 'A'], 2, True
            elif shape.startswith('method:'):
                opn = shape.split(':')[1]
                op = palette.operator(opn).inverse()
                ops, fresh, exact = [opn], 1, True
            elif shape.startswith('expr:'):
                # the inverse of a sum / of a scaled operator: InverseOperator over a reduced expression
                opn = shape.split(':')[1]
                op = palette.composite_source(opn).I
                ops, fresh, exact = [opn], 1, True
            elif shape.startswith('comp:'):
                opn = shape.split(':')[1]
                op = palette.diag_operator() @ palette.operator(opn).I
                ops, fresh, exact = [opn], 1, True
            elif shape.startswith('neg:'):
                opn = shape.split(':')[1]
                op = -(palette.operator(opn).I)
                ops, fresh, exact = [opn], 1, True
            elif shape == 'nested':
                src = inner[0]
                base_op = palette.operator(src.ops[0])
                op = (base_op + src.op).I
                ops, fresh, exact = ['nested'] + list(src.ops), 1, False
            else:
                raise HarnessError(f'unknown shape {shape}')
        except (Abort, HarnessError, SimAsyncFault):
            raise
        except BaseException as exc:  # noqa: BLE001
            self.log(fr, 'error', {'clause': 'N', 'site': 'create', 'why': exc_text(exc)})
            self.violate(fr, 'N', {'site': 'create', 'shape': shape, 'why': exc_text(exc)})
            return
        invs = find_inverses(op)
        exp_caps = [self.top(fr)] * fresh + [c for h in inner for c in h.caps]
        # The captured configuration is looked at structurally (`InverseOperator.config`) only when the
        # operator contains the inverse operators the current tree builds.  An implementation is free
        # to represent a lazy inverse differently; such a handle is judged by behaviour alone (clause U).
        caps_obs = observe_captures(invs, len(exp_caps))
        h = len(self.handles)
        handle = Handle(h, shape, ops, exact, [dict(c) for c in exp_caps], op, fr.actor.aid, fr.ctx)
        handle.structural = caps_obs is not None
        self.log(
            fr,
            'create',
            {'h': h, 'shape': shape, 'ops': ops, 'exact': exact, 'fresh': fresh, 'inner': [x.h for x in inner], 'caps': caps_obs},
        )
        if caps_obs is None:
            self.probe('handle_judged_by_behaviour_only')
        elif caps_obs != exp_caps:
            self.violate(fr, 'K', {'site': 'create', 'shape': shape, 'caps': caps_obs, 'expected': exp_caps})
        self.handles.append(handle)
        fr.actor.own_handles.append(h)
        if len(self.stacks[fr.ctx]) > 1:
            self.probe('create_inside_block')
        if shape == 'nested':
            self.probe('create_nested')

    # -- ROUNDTRIP --------------------------------------------------------------------------
    def do_roundtrip(self, fr: Frame, stmt: list) -> None:
        import jax

        vis = self.visible(fr)
        if not vis:
            self.log(fr, 'skip', {'stmt': 'ROUNDTRIP'})
            return
        src = self.pick(fr, vis, stmt[1])
        kind = stmt[2]
        exact = src.exact
        partner = None
        try:
            if kind == 'flatten':
                leaves, treedef = jax.tree.flatten(src.op)
                op = jax.tree.unflatten(treedef, leaves)
            elif kind == 'reduce':
                op = src.op.reduce()
            elif kind == 'transpose':
                # structural only (the library cannot *apply* the transpose of an iterative inverse): the
                # transposed operator, and its transpose again, must still hold the inverses with the
                # configuration they captured; an implementation that re-creates them here captures now
                t1 = src.op.T
                t2 = t1.T
                for name, t in (('T', t1), ('T.T', t2)):
                    caps_t = observe_captures(find_inverses(t), len(src.caps)) if src.structural else None
                    self.log(fr, 'derive', {'h': None, 'src': src.h, 'src2': None, 'kind': 'transpose:' + name, 'shape': src.shape, 'ops': src.ops, 'exact': False, 'caps': caps_t})
                    # (A @ B).T = B.T @ A.T: transposition may legitimately reverse the order in which the
                    # inverses appear, so the captured configurations are compared as a multiset
                    if caps_t is not None and _as_multiset(caps_t) != _as_multiset(src.caps):
                        self.violate(fr, 'K', {'site': 'derive:transpose:' + name, 'caps': caps_t, 'expected': src.caps})
                if self.top(fr) != src.caps[0]:
                    self.probe('transposed_under_other_config')
                return
            elif kind == 'pair-reduce':
                # two handles composed and reduced: an algebraic rule that rebuilt the inverses would
                # capture the configuration active *now*
                cands = [h for h in vis if h.op.in_structure() == palette.structure() and h.op.out_structure() == palette.structure() and h.shape != 'pair' and h.shape != 'nested']
                if src not in cands or not cands:
                    op = src.op.reduce()
                else:
                    partner = cands[(stmt[1] * 7 + 3) % len(cands)]
                    op = (src.op @ partner.op).reduce()
                    exact = False
            else:
                if src.op.out_structure() != palette.structure():
                    op = src.op.reduce()  # a block container: nothing of the palette composes with it
                else:
                    op = (palette.diag_operator() @ src.op).reduce()
                    exact = False
        except (Abort, HarnessError):
            raise
        except BaseException as exc:  # noqa: BLE001
            self.log(fr, 'error', {'clause': 'N', 'site': 'roundtrip', 'why': exc_text(exc)})
            self.violate(fr, 'N', {'site': 'roundtrip:' + kind, 'why': exc_text(exc)})
            return
        invs = find_inverses(op)
        shape, ops, caps, structural, src2 = src.shape, src.ops, src.caps, src.structural, None
        if partner is not None:
            shape, ops, caps = 'pair', list(src.ops) + list(partner.ops), list(src.caps) + list(partner.caps)
            structural, src2 = src.structural and partner.structural, partner.h
            self.probe('pair_of_inverses_reduced')
        caps_obs = observe_captures(invs, len(caps)) if structural else None
        h = len(self.handles)
        self.log(
            fr,
            'derive',
            {'h': h, 'src': src.h, 'src2': src2, 'kind': kind, 'shape': shape, 'ops': ops, 'exact': exact, 'caps': caps_obs},
        )
        if caps_obs is not None and caps_obs != caps:
            self.violate(fr, 'K', {'site': 'derive:' + kind, 'caps': caps_obs, 'expected': caps})
        handle = Handle(h, shape, ops, exact, [dict(c) for c in caps], op, src.creator, src.creator_ctx)
        handle.structural = caps_obs is not None
        self.handles.append(handle)
        fr.actor.own_handles.append(h)
        if self.top(fr) != src.caps[0]:
            self.probe('roundtrip_under_other_config')

    # -- APPLY ------------------------------------------------------------------------------
    def do_apply(self, fr: Frame, stmt: list, depth: int) -> None:
        import equinox
        import jax

        _, k, mode, fault = stmt
        vis = self.visible(fr)
        if not vis:
            self.log(fr, 'skip', {'stmt': 'APPLY'})
            return
        handle = self.pick(fr, vis, k)
        actor = fr.actor
        y = palette.rhs_for(handle.op.in_structure())
        table = self.table_for(handle)
        sink: list = []
        seam = {'kind': fault, 'fired': False} if fault in ('seam-mem', 'seam-rt') else None
        so = {'fired': False} if fault == 'stdout' else None
        raised: BaseException | None = None
        prev = (getattr(tls, 'sink', None), getattr(tls, 'seam', None), getattr(tls, 'stdout_fault', None))
        tls.sink, tls.seam, tls.stdout_fault = sink, seam, so
        active = self.top(fr)
        try:
            if mode == 'eager':
                out = handle.op(y)
            elif mode == 'jit':
                if handle.jitfn is None:
                    op = handle.op
                    handle.jitfn = jax.jit(lambda v: op(v))
                    handle.jit_ctx_entry = active
                elif handle.jit_ctx_entry != active:
                    self.probe('jit_closure_reused_under_other_config')
                out = handle.jitfn(y)
            elif mode == 'jarg':
                # plain jax.jit with the operator passed as an argument (static fields in the treedef)
                if self.jarg is None:
                    self.jarg = jax.jit(lambda op, v: op(v))
                out = self.jarg(handle.op, y)
            else:
                if self.fjit is None:
                    self.fjit = equinox.filter_jit(lambda op, v: op(v))
                out = self.fjit(handle.op, y)
            jax.block_until_ready(out)
            jax.effects_barrier()
        except Abort:
            raise
        except BaseException as exc:  # noqa: BLE001
            raised = exc
            try:
                jax.effects_barrier()
            except BaseException:  # noqa: BLE001
                pass
        finally:
            tls.sink, tls.seam, tls.stdout_fault = prev
        if self.aborting:
            raise Abort()
        fault_fired = bool((seam and seam['fired']) or (so and so['fired']) or isinstance(raised, SimAsyncFault))
        if seam and seam['fired']:
            self.faults['seam'] += 1
        if so and so['fired']:
            self.faults['stdout'] += 1
            self.probe('stdout_fault_' + mode)
        fired = self.decode_sink(sink, handle)
        caps_after = None
        if handle.structural:
            caps_after = observe_captures(find_inverses(handle.op), len(handle.caps))
        obs = self.quiet_read(fr)
        # the class JAX surfaces for a failure inside a compiled computation is not stable
        # (JaxRuntimeError or ValueError for the same failing host callback): log a category
        rname = None
        if raised is not None:
            if fault_fired:
                rname = 'injected'
            elif isinstance(raised, CallbackFault) or 'CallbackFault' in repr(raised):
                rname = 'callback'
            else:
                rname = 'solver'
        self.log(
            fr,
            'apply',
            {
                'h': handle.h,
                'mode': mode,
                'fault': fault,
                'fault_fired': fault_fired,
                'raised': rname,
                'fired': fired,
                'caps_after': caps_after,
                'obs': obs,
            },
        )
        # probes
        if handle.creator != actor.aid:
            self.probe('apply_by_non_creator')
        if active != handle.caps[0]:
            self.probe('apply_under_other_config')
        creator = self.actors.get(handle.creator)
        if creator is not None and creator.status in ('done', 'died', 'cancelled') and creator is not actor:
            self.probe('apply_after_creator_ended')
        if mode != 'eager':
            self.probe('apply_' + mode)
        # verdict
        pred = model.predict_apply(handle.shape, handle.ops, handle.caps, table, handle.exact)
        complaint = model.judge_apply(pred, rname, fired, fault_fired, handle.shape, handle.caps, mode)
        if complaint:
            self.violate(fr, 'U', {'site': 'apply', 'h': handle.h, 'mode': mode, 'why': complaint, 'raised': exc_text(raised) if raised is not None else None})
        if caps_after is not None and caps_after != handle.caps:
            self.violate(fr, 'U', {'site': 'apply:captured-mutated', 'caps': caps_after, 'expected': handle.caps})
        self.expect(fr, 'U', obs, active, {'what': 'active configuration changed by an apply'})
        if raised is not None:
            if not fault_fired:
                from_callback = isinstance(raised, CallbackFault) or 'CallbackFault' in repr(raised)
                self.faults['cb_raise_propagated' if from_callback else 'solver_fail'] += 1
            if depth >= 1:
                self.probe('apply_failure_inside_block')
            _mark_expected(raised)
            raise raised

    def table_for(self, handle: Handle) -> dict[str, list]:
        table: dict[str, list] = {}
        for op, cap in zip(handle.ops, handle.caps):
            if op == 'nested':
                continue
            okind = model.options_kind_of(cap['options'])
            num, mx, ok = palette.expected_solve(op, cap['solver'], okind)
            table['|'.join((op, cap['solver'], okind))] = [num, mx, ok]
        self.table.update(table)
        return table

    def decode_sink(self, sink: list, handle: Handle) -> list:
        """Callback records and default-callback lines of one apply -> [[tag, num, max], ...]."""
        fired = []
        for rec in sink:
            if rec[0] == 'cb':
                fired.append([rec[1], rec[2], rec[3]])
            else:
                text = rec[1]
                # 'Converged in N iterations' / 'Did not converge in N iterations'
                words = text.split()
                num = next((int(w) for w in words if w.isdigit()), -1)
                mx = None
                for op, cap in zip(handle.ops, handle.caps):
                    if cap['callback'] == 'default':
                        mx = model._max_steps(cap['solver'])
                if text.startswith('Converged') and mx is not None and not num < mx:
                    num = -2  # library said "converged" against its own captured max_steps
                if text.startswith('Did not') and mx is not None and num < mx:
                    num = -3
                fired.append(['default', num, mx if mx is not None else -1])
        fired.sort(key=lambda r: (r[0], r[1], r[2]))
        return fired

    # -- TRY / RAISE / BADCONFIG ------------------------------------------------------------
    async def do_try(self, fr: Frame, stmt: list, depth: int) -> None:
        _, body, catch = stmt
        try:
            await self.exec_body(fr, body, depth)
        except Abort:
            raise
        except BaseException as exc:  # noqa: BLE001
            if not is_expected(exc):
                raise
            if catch == 'exc' and not (isinstance(exc, Exception)):
                raise
            if catch == 'cancel':
                if not isinstance(exc, asyncio.CancelledError):
                    raise
                try:
                    task = asyncio.current_task()
                except RuntimeError:  # a to_thread body: no loop in this thread
                    task = None
                if task is not None and task.cancelling() > 0:
                    task.uncancel()
                self.probe('cancel_caught_and_uncancelled')
            elif isinstance(exc, asyncio.CancelledError):
                raise
            self.log(fr, 'caught', {'exc': exc_label(exc), 'catch': catch, 'depth': len(self.stacks[fr.ctx]) - 1})
            if len(self.stacks[fr.ctx]) > 1:
                self.probe('caught_mid_stack_and_continued')

    def do_raise(self, fr: Frame, stmt: list, depth: int) -> None:
        kind = stmt[1]
        d = len(self.stacks[fr.ctx]) - 1
        self.log(fr, 'fault', {'kind': 'raise_' + kind, 'depth': d})
        self.faults['raise_exc' if kind in EXC_KINDS else 'raise_base'] += 1
        self.faults['raise:' + kind] += 1
        if d >= 2:
            self.probe('raise_at_depth_ge_2')
        exc = RAISE_KINDS[kind](f'a{fr.actor.aid}')
        _mark_expected(exc)
        exc._sim_label = kind  # type: ignore[attr-defined]
        # how the exception comes about must not matter either (S35): raised directly, raised while
        # another exception is being handled (`__context__` set), or raised by a `finally` clause
        # during the unwinding of another one.  Chosen without drawing from the PRNG, so that the
        # schedule of a run does not depend on it.
        flavour = (fr.actor.aid + list(RAISE_KINDS).index(kind)) % 3
        if flavour == 1:
            self.probe('raise_while_handling_another')
            try:
                raise LookupError('being handled')
            except LookupError:
                raise exc
        if flavour == 2:
            self.probe('raise_from_finally_during_unwinding')
            try:
                raise LookupError('unwinding')
            finally:
                raise exc
        raise exc

    def do_badconfig(self, fr: Frame) -> None:
        raised = None
        try:
            self.Config(no_such_setting=1)
        except (Abort, SimAsyncFault):
            raise
        except BaseException as exc:  # noqa: BLE001
            raised = type(exc).__name__
        obs = self.quiet_read(fr)
        self.log(fr, 'bad', {'raised': raised, 'obs': obs})
        self.faults['badconfig'] += 1
        if len(self.stacks[fr.ctx]) > 1:
            self.probe('badconfig_inside_block')
        # which exception an unknown setting raises (the current tree: TypeError from dataclasses.replace),
        # or whether it raises at all, is not C19's business; that nothing changes is
        self.probe('badconfig_raised:' + str(raised))
        self.expect(fr, 'N', obs, self.top(fr), {'what': 'a failed Config(...) changed the active configuration'})

    def do_construct(self, fr: Frame, stmt: list) -> None:
        _, uid, kwspec = stmt
        kw = self.build_kw(uid, kwspec)
        try:
            self.Config(**kw)
        except (Abort, SimAsyncFault):
            raise
        except BaseException as exc:  # noqa: BLE001
            self.log(fr, 'error', {'clause': 'N', 'site': 'construct', 'why': exc_text(exc)})
            self.violate(fr, 'N', {'site': 'construct', 'why': exc_text(exc)})
        obs = self.quiet_read(fr)
        self.log(fr, 'construct', {'uid': uid, 'kw': kwspec, 'obs': obs})
        if len(self.stacks[fr.ctx]) > 1:
            self.probe('construct_only_inside_block')
        self.expect(fr, 'S', obs, self.top(fr), {'what': 'a Config(...) that was never entered changed the active configuration'})

    # -- CTXRUN -----------------------------------------------------------------------------
    def do_ctxrun(self, fr: Frame, stmt: list, depth: int) -> None:
        body = stmt[1]
        cid = self.new_ctx(fr, 'ctxrun', fr.actor.aid)
        sub = Frame(fr.actor, cid, True)
        ctx = contextvars.copy_context()
        prev_frame = getattr(tls, 'frame', None)

        def inside(which=body):
            tls.frame = sub
            try:
                drive(self.sync_ctx_body(sub, which, depth))
            finally:
                tls.frame = prev_frame

        try:
            ctx.run(inside)
            if len(stmt) > 2 and stmt[2] is not None:
                # the same Context object used for a second job (a re-used copy_context(), a pool worker):
                # it starts from where the first job left it, i.e. from its snapshot again
                self.probe('context_object_reused')
                ctx.run(inside, stmt[2])
        except Abort:
            raise
        except BaseException:
            self.probe('ctxrun_left_by_exception')
            raise
        finally:
            if not self.aborting:
                obs = self.quiet_read(fr)
                self.log(fr, 'read', {'obs': obs, 'why': 'after-ctxrun'})
                self.expect(fr, 'I', obs, self.top(fr), {'what': 'Context.run body leaked into the caller'})

    async def sync_ctx_body(self, sub: Frame, body: list, depth: int) -> None:
        start = self.quiet_read(sub)
        self.log(sub, 'start', {'obs': start})
        self.expect(sub, 'I', start, self.stacks[sub.ctx][0], {'what': 'copied context does not start from the snapshot'})
        try:
            await self.exec_body(sub, body, depth)
        finally:
            if not self.aborting:
                obs = self.quiet_read(sub)
                self.log(sub, 'ctxend', {'obs': obs})
                self.expect(sub, 'D', obs, self.stacks[sub.ctx][0])

    # -- SPAWN / JOIN -----------------------------------------------------------------------
    def do_spawn(self, fr: Frame, stmt: list) -> None:
        cid, body = stmt[1], stmt[2]
        alt = len(stmt) > 3 and bool(stmt[3])
        if cid in self.actors:
            raise HarnessError(f'actor {cid} spawned twice')
        if self.world == 'thread':
            # alt: Thread(target=copy_context().run, ...) -- the thread inherits a snapshot
            mode = 'threadctx' if alt else 'thread'
        else:
            # alt: create_task(..., context=contextvars.Context()) -- an empty context: defaults
            mode = 'taskfresh' if alt else 'task'
        ctx = self.new_ctx(fr, mode, cid)
        child = Actor(self, cid, body, ctx, fr.actor)
        self.actors[cid] = child
        self.log(fr, 'spawn', {'child': cid, 'mode': mode, 'depth': len(self.stacks[fr.ctx]) - 1})
        if len(self.stacks[fr.ctx]) > 1:
            self.probe('spawn_inside_block_' + mode)
        if self.world == 'thread':
            child.slot = self.sched.register(cid)
            if alt:
                snapshot = contextvars.copy_context()
                child.thread = threading.Thread(target=snapshot.run, args=(self.thread_main, child), name=f'sim-a{cid}', daemon=True)
            else:
                child.thread = threading.Thread(target=self.thread_main, args=(child,), name=f'sim-a{cid}', daemon=True)
            child.thread.start()
        else:
            if alt:
                child.task = self.loop.create_task(self.task_main(child), name=f'sim-a{cid}', context=contextvars.Context())
            else:
                child.task = self.loop.create_task(self.task_main(child), name=f'sim-a{cid}')
            self.tasks.append(child.task)

    async def do_join(self, fr: Frame, stmt: list) -> None:
        cid = stmt[1]
        child = self.actors.get(cid)
        if child is None or child.parent is not fr.actor:
            # only an actor's own children can be joined: no wait cycle is possible then (generated
            # programs obey this by construction; Hypothesis-built and shrunk ones are filtered here)
            self.log(fr, 'skip', {'stmt': 'JOIN'})
            return
        if self.world == 'thread':
            me = fr.actor.slot
            me.blocked_on = child.slot
            try:
                while not child.slot.done:
                    self.thread_point(fr, 'join')
            finally:
                me.blocked_on = None
        else:
            if fr.sync:
                raise HarnessError('JOIN in a synchronous frame')
            await asyncio.wait([child.task])
        self.log(fr, 'joined', {'child': cid, 'status': child.status})

    # -- task world only ----------------------------------------------------------------------
    async def do_sleep(self, fr: Frame, stmt: list) -> None:
        if fr.sync or self.world != 'task':
            raise HarnessError('SLEEP in a synchronous frame')
        before = self.quiet_read(fr)
        self.note_state()
        others_open = self._others_open(fr.actor)
        tls.frame = None
        try:
            await asyncio.sleep(stmt[1])
        finally:
            tls.frame = fr
        if self.aborting:
            raise Abort()
        if others_open and len(self.stacks[fr.ctx]) > 1:
            self.probe('switch_with_two_actors_in_blocks')
        after = self.quiet_read(fr)
        if after != before:
            self.log(fr, 'read', {'obs': after, 'why': 'resume'})
            self.violate(fr, 'I', {'site': 'resume', 'point': 'sleep', 'diff': model.diff(after, before)})

    async def do_timeout(self, fr: Frame, stmt: list, depth: int) -> None:
        _, d, body = stmt
        d0 = len(self.stacks[fr.ctx]) - 1
        try:
            async with asyncio.timeout(d):
                await self.exec_body(fr, body, depth)
        except TimeoutError as exc:
            if getattr(exc, '_sim_label', None) is not None:
                raise  # a program's own RAISE of TimeoutError, not this statement's deadline
            self.faults['timeout'] += 1
            self.log(fr, 'fault', {'kind': 'timeout', 'depth': d0})
            if d0 >= 1:
                self.probe('timeout_inside_block')

    def do_callsoon(self, fr: Frame) -> None:
        cid = self.new_ctx(fr, 'callsoon', fr.actor.aid)
        sub = Frame(fr.actor, cid, True)
        parent_depth = len(self.stacks[fr.ctx]) - 1

        def fn():
            if self.aborting:
                return
            try:
                obs = self.quiet_read(sub)
                self.log(sub, 'start', {'obs': obs})
                if parent_depth >= 1:
                    self.probe('call_soon_snapshot_inside_block')
                self.expect(sub, 'I', obs, self.stacks[cid][0], {'what': 'call_soon callback does not see its snapshot'})
            except Abort:
                pass
            except BaseException as exc:  # noqa: BLE001
                self.harness_fail(exc)

        self.loop.call_soon(fn)

    async def do_tothread(self, fr: Frame, stmt: list, depth: int) -> None:
        body = stmt[1]
        alt = len(stmt) > 2 and bool(stmt[2])
        # alt: loop.run_in_executor(None, job) -- unlike to_thread it does not copy the context: the worker
        # thread has a context of its own and must see the defaults
        cid = self.new_ctx(fr, 'executor' if alt else 'tothread', fr.actor.aid)
        sub = Frame(fr.actor, cid, True)
        if len(self.stacks[fr.ctx]) > 1:
            self.probe('run_in_executor_inside_block' if alt else 'to_thread_snapshot_inside_block')

        box: dict = {}

        def job():
            tls.frame = sub
            tls.quiet = 0
            try:
                drive(self.sync_ctx_body(sub, body, depth))
            except BaseException as exc:  # noqa: BLE001
                # handed back by value and re-raised by the awaiting coroutine itself: asyncio would
                # re-create TimeoutError / CancelledError instances, and a GeneratorExit delivered
                # through a future is *thrown* into the task, which closes every inner coroutine
                box['exc'] = exc
            finally:
                tls.frame = None

        tls.frame = None
        try:
            if alt:
                await self.loop.run_in_executor(None, job)
            else:
                await asyncio.to_thread(job)
            if 'exc' in box:
                raise box['exc']
        finally:
            tls.frame = fr
            if not self.aborting:
                obs = self.quiet_read(fr)
                self.log(fr, 'read', {'obs': obs, 'why': 'after-tothread'})
                self.expect(fr, 'I', obs, self.top(fr), {'what': 'to_thread body leaked into the caller'})

    # ------------------------------------------------------------------ actors
    async def actor_body(self, actor: Actor) -> None:
        fr = Frame(actor, actor.root_ctx, False)
        tls.frame = fr
        actor.status = 'running'
        base = self.stacks[actor.root_ctx][0]
        start = self.quiet_read(fr)
        self.log(fr, 'start', {'obs': start})
        self.expect(fr, 'I', start, base, {'what': 'a new thread/task does not start from defaults/snapshot'})
        how = 'done'
        try:
            await self.exec_body(fr, actor.program, 0)
        except Abort:
            how = 'abort'
            raise
        except BaseException as exc:  # noqa: BLE001
            if not is_expected(exc):
                how = 'error'
                raise
            if isinstance(exc, asyncio.CancelledError):
                how = 'cancelled'
            else:
                how = 'died'
                self.faults['death'] += 1
            self.log(fr, 'fault', {'kind': 'actor_' + how, 'exc': exc_label(exc)})
        finally:
            tls.frame = fr
            actor.status = how if how != 'done' else 'done'
            if not self.aborting and how != 'error':
                obs = self.quiet_read(fr)
                self.log(fr, 'end', {'how': how, 'obs': obs})
                self.expect(fr, 'D', obs, base, {'how': how})

    def thread_main(self, actor: Actor) -> None:
        tls.actor = actor
        tls.quiet = 0
        tls.sink = None
        tls.seam = None
        tls.stdout_fault = None
        try:
            self.sched.wait_turn(actor.slot)
            drive(self.actor_body(actor))
        except Abort:
            pass
        except BaseException as exc:  # noqa: BLE001
            # while a stopped run unwinds, a broken implementation may raise from __exit__; only the
            # first verdict counts
            if not self.aborting:
                self.harness_fail(exc)
        finally:
            tls.actor = None
            tls.frame = None
            try:
                self.sched.finish(actor.slot)
            except BaseException as exc:  # noqa: BLE001  # pragma: no cover
                self.harness_fail(exc)
                self.sched.all_done.release()

    async def task_main(self, actor: Actor) -> None:
        try:
            await self.actor_body(actor)
        except Abort:
            pass
        except asyncio.CancelledError:
            raise
        except BaseException as exc:  # noqa: BLE001
            if not self.aborting:
                self.harness_fail(exc)

    # ------------------------------------------------------------------ worlds
    def execute(self) -> None:
        install_seams()
        tls.quiet = 0
        tls.frame = None
        tls.sink = None
        try:
            if self.world == 'thread':
                self.run_threads()
            else:
                self.run_tasks()
            if not self.aborting:
                obs = self.quiet_read(None)
                self.log(None, 'main', {'obs': obs}, aid=-1, ctx=None)
                if obs != DEFAULT:
                    self.violation = self.violation or {
                        'clause': 'D',
                        'seq': self.seq,
                        'actor': None,
                        'ctx': None,
                        'detail': {'site': 'main', 'diff': model.diff(obs, DEFAULT)},
                    }
            if self.orphan_callbacks and self.harness_error is None:
                self.harness_error = f'{self.orphan_callbacks} callback(s) fired on a thread that was not applying (harness assumption broken)'
        except Abort:
            pass
        except HarnessError as exc:
            self.harness_fail(exc)

    def run_threads(self) -> None:
        rng = random.Random(self.spec['seed'] * 2 + 1)
        est = max(10, 3 * sum(1 for p in self.spec['programs'] for _ in _iter(p)))
        if self.fine:
            est *= 6
        self.sched = sched.Scheduler(rng, self.sw, self.spec.get('decisions'), est, self.spec.get('switches'))
        for aid, prog in enumerate(self.spec['programs']):
            ctx = self.new_ctx(None, 'thread', aid)
            actor = Actor(self, aid, prog, ctx, None)
            actor.slot = self.sched.register(aid)
            self.actors[aid] = actor
        if self.fine:
            sched.install_monitor(sched.monitored_codes(), lambda actor, code, line: actor_run(actor).on_line(actor, code, line), instruction=self.ultra)
        threads = []
        try:
            for aid in sorted(self.actors):
                actor = self.actors[aid]
                t = threading.Thread(target=self.thread_main, args=(actor,), name=f'sim-a{aid}', daemon=True)
                actor.thread = t
                threads.append(t)
                t.start()
            self.sched.start_and_wait(self.watchdog_s)
            for actor in list(self.actors.values()):
                if actor.thread is not None:
                    actor.thread.join(timeout=5)
        finally:
            if self.fine:
                sched.uninstall_monitor()

    def run_tasks(self) -> None:
        async def main(loop):
            self.loop = loop
            for aid, prog in enumerate(self.spec['programs']):
                ctx = self.new_ctx(None, 'task', aid)
                actor = Actor(self, aid, prog, ctx, None)
                self.actors[aid] = actor
            for aid in sorted(list(self.actors)):
                actor = self.actors[aid]
                actor.task = loop.create_task(self.task_main(actor), name=f'sim-a{aid}')
                self.tasks.append(actor.task)
            for t, aid in self.spec.get('cancels', []):
                loop.call_at(t, self.fire_cancel_safe, aid, t)
            while True:
                pending = [t for t in self.tasks if not t.done()]
                if not pending:
                    break
                await asyncio.wait(pending)
            for t in self.tasks:
                if not t.cancelled() and t.exception() is not None:
                    exc = t.exception()
                    if not isinstance(exc, Abort):
                        self.harness_fail(exc)
            # let call_soon callbacks scheduled last run
            await asyncio.sleep(0)

        try:
            _, self.sim_seconds, self.clock_jumps = vloop.run(main)
        except vloop.SimDeadlock as exc:
            self.harness_fail(exc)

    def fire_cancel_safe(self, aid: int, t: float) -> None:
        try:
            self.fire_cancel(aid, t)
        except BaseException as exc:  # noqa: BLE001
            self.harness_fail(exc)

    def fire_cancel(self, aid: int, t: float) -> None:
        if self.aborting:
            return
        actor = self.actors.get(aid)
        if actor is None or actor.task is None or actor.task.done() or actor.status != 'running':
            self.log(None, 'fault', {'kind': 'cancel_miss', 'target': aid, 't': t}, aid=-1, ctx=None)
            return
        depth = len(actor.open_uids)
        self.log(None, 'fault', {'kind': 'cancel', 'target': aid, 't': t, 'depth': depth}, aid=-1, ctx=None)
        self.faults['cancel'] += 1
        if depth >= 2:
            self.probe('cancel_at_depth_ge_2')
        elif depth >= 1:
            self.probe('cancel_inside_block')
        actor.task.cancel()


_RUNS: dict = {}  # token -> Run, for callbacks (which must stay deep-copyable, see make_callback)


def _fire(token, tag, raising, cell, solution):
    run = _RUNS.get(token)
    if run is not None:
        run.on_callback(tag, solution, raising, cell)


class _CallbackObject:
    def __init__(self, token, tag, raising, cell):
        self.token, self.tag, self.raising, self.cell = token, tag, raising, cell

    def __call__(self, solution):
        _fire(self.token, self.tag, self.raising, self.cell, solution)

    def method(self, solution):
        _fire(self.token, self.tag, self.raising, self.cell, solution)


def _inside_compiled_execution() -> bool:
    f = sys._getframe(1)
    while f is not None:
        name = f.f_code.co_filename
        if name.endswith('jax/_src/callback.py') or name.endswith('jax/_src/interpreters/pxla.py'):
            return True
        f = f.f_back
    return False


def _async_safe_here() -> bool:
    f = sys._getframe(1)
    while f is not None:
        if f.f_code.co_name in ('__enter__', '__exit__', '__aenter__', '__aexit__'):
            return False
        f = f.f_back
    return True


def _trace_state_clean() -> bool:
    try:
        from jax._src import core as jcore

        return bool(jcore.trace_state_clean())
    except Exception:  # pragma: no cover - unknown JAX: be safe, never park
        return False


def actor_run(actor: Actor) -> Run:
    return actor.run


def _iter(body):
    from .program import iter_statements

    return iter_statements(body)


def _as_multiset(caps: list) -> list:
    return sorted(repr(sorted(c.items(), key=lambda kv: kv[0])) for c in caps)


def observe_captures(invs: list, expected: int) -> list | None:
    """Captured configurations as tags, or None when the operator is not built the way the current
    tree builds it (other number of InverseOperators, no `config` field): behaviour decides then."""
    if len(invs) != expected:
        return None
    out = []
    for inv in invs:
        cfg = getattr(inv, 'config', None)
        if cfg is None or not all(hasattr(cfg, f) for f in ('solver', 'solver_throw', 'solver_options', 'solver_callback')):
            return None
        out.append(palette.observe(cfg))
    return out


def find_inverses(op) -> list:
    """Every InverseOperator inside an operator, depth-first, outer before nested."""
    import jax
    from furax._base.core import InverseOperator

    out: list = []

    def visit(node) -> None:
        if isinstance(node, InverseOperator):
            out.append(node)
            visit_children(node.operator)
        else:
            visit_children(node)

    def visit_children(node) -> None:
        leaves = jax.tree.leaves(node, is_leaf=lambda x: isinstance(x, InverseOperator) and x is not node)
        for leaf in leaves:
            if isinstance(leaf, InverseOperator):
                visit(leaf)

    visit(op)
    return out
