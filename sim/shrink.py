"""Delta-debugging minimiser over (programs, cancels, decisions, swarm) — DESIGN.md 3.9.

Every candidate is re-executed through the simulator and kept only if the same
clause class fails.  Bounded by `budget` re-executions.
"""

from __future__ import annotations

import copy
from typing import Callable, Iterator

from . import program


def _paths(body: list, prefix: tuple = ()) -> Iterator[tuple]:
    """Paths to every statement, deepest last within each body, in reverse order (delete from the end)."""
    for i in reversed(range(len(body))):
        stmt = body[i]
        yield prefix + (i,)
        for j, sub in enumerate(program.sub_bodies(stmt)):
            yield from _paths(sub, prefix + (i, ('sub', j)))


def _get_body(root: list, path: tuple) -> tuple[list, int]:
    body = root
    k = 0
    while k < len(path) - 1:
        stmt = body[path[k]]
        _, j = path[k + 1]
        body = program.sub_bodies(stmt)[j]
        k += 2
    return body, path[-1]


def _candidates(spec: dict) -> Iterator[tuple[str, dict]]:
    # 1. whole actors
    for i, prog in enumerate(spec['programs']):
        if prog:
            cand = copy.deepcopy(spec)
            cand['programs'][i] = []
            yield f'empty actor {i}', cand
    while False:
        yield
    # 2. swarm simplifications
    sw = spec.get('swarm', {})
    for key in ('fine', 'park_cb'):
        if sw.get(key):
            cand = copy.deepcopy(spec)
            cand['swarm'][key] = False
            yield f'{key} off', cand
    # 3. cancels
    for i in range(len(spec.get('cancels', []))):
        cand = copy.deepcopy(spec)
        del cand['cancels'][i]
        yield f'drop cancel {i}', cand
    # 4. statements: delete, then unwrap
    for ai, prog in enumerate(spec['programs']):
        for path in list(_paths(prog)):
            cand = copy.deepcopy(spec)
            body, idx = _get_body(cand['programs'][ai], path)
            stmt = body[idx]
            del body[idx]
            yield f'delete {stmt[0]} in actor {ai}', cand
            subs = program.sub_bodies(stmt)
            if subs and stmt[0] in ('BLOCK', 'TRY', 'TIMEOUT', 'CTXRUN'):
                cand = copy.deepcopy(spec)
                body, idx = _get_body(cand['programs'][ai], path)
                inner = program.sub_bodies(body[idx])[0]
                body[idx : idx + 1] = inner
                yield f'unwrap {stmt[0]} in actor {ai}', cand
            if stmt[0] == 'BLOCK' and len(stmt[2]) > 1:
                for key in list(stmt[2]):
                    cand = copy.deepcopy(spec)
                    body, idx = _get_body(cand['programs'][ai], path)
                    del body[idx][2][key]
                    yield f'drop {key} from block {stmt[1]}', cand
            if stmt[0] == 'APPLY' and (stmt[2] != 'eager' or stmt[3] is not None):
                cand = copy.deepcopy(spec)
                body, idx = _get_body(cand['programs'][ai], path)
                body[idx][2] = 'eager'
                body[idx][3] = None
                yield 'simplify APPLY', cand
            if stmt[0] == 'SLEEP' and stmt[1] != 0:
                cand = copy.deepcopy(spec)
                body, idx = _get_body(cand['programs'][ai], path)
                body[idx][1] = 0
                yield 'SLEEP -> 0', cand
    # 5. decisions
    dec = spec.get('decisions')
    if dec:
        cand = copy.deepcopy(spec)
        cand['decisions'] = []
        yield 'no recorded decisions', cand
        n = len(dec)
        step = max(1, n // 2)
        while step >= 1:
            for start in range(0, n, step):
                cand = copy.deepcopy(spec)
                del cand['decisions'][start : start + step]
                yield f'drop decisions[{start}:{start + step}]', cand
            if step == 1:
                break
            step //= 2


def trim(spec: dict) -> dict:
    spec = copy.deepcopy(spec)
    while len(spec['programs']) > 1 and not spec['programs'][-1]:
        used = {s[1] for p in spec['programs'] for s in program.iter_statements(p) if s[0] == 'JOIN'}
        if len(spec['programs']) - 1 in used:
            break
        spec['programs'].pop()
    return spec


def minimise(
    spec: dict,
    clause: str,
    execute_many: Callable[[list[dict]], list[dict]],
    budget: int = 400,
    batch: int = 16,
    log: Callable[[str], None] | None = None,
) -> tuple[dict, dict | None, int]:
    """Returns (minimal spec, its result or None if nothing was kept, executions used).

    `execute_many` runs each spec as the first run of a brand-new process (so that no
    candidate can be influenced by what an earlier, violating candidate left behind in
    process-global state of a broken implementation) and returns results in order.
    Candidates are evaluated in batches; the first one, in generation order, that still
    violates the same clause is kept.
    """

    def same(res: dict) -> bool:
        return res['status'] == 'violation' and res['violation']['clause'] == clause

    best = copy.deepcopy(spec)
    best_res: dict | None = None
    used = 0
    progress = True
    while progress and used < budget:
        progress = False
        pending: list[tuple[str, dict]] = []

        def flush() -> bool:
            nonlocal best, best_res, used, progress
            if not pending:
                return False
            results = execute_many([c for _, c in pending])
            used += len(pending)
            for (what, cand), res in zip(pending, results):
                if same(res):
                    if res.get('decisions') is not None:
                        cand['decisions'] = res['decisions']
                    best, best_res = cand, res
                    progress = True
                    if log:
                        log(f'shrink: {what} kept ({program.count_statements(best)} statements)')
                    pending.clear()
                    return True
            pending.clear()
            return False

        for what, cand in _candidates(best):
            try:
                program.validate(cand)
            except ValueError:
                continue
            pending.append((what, cand))
            if len(pending) >= batch or used + len(pending) >= budget:
                if flush() or used >= budget:
                    break
        else:
            flush()
    trimmed = trim(best)
    if trimmed != best:
        res = execute_many([trimmed])[0]
        used += 1
        if same(res):
            if res.get('decisions') is not None:
                trimmed['decisions'] = res['decisions']
            best, best_res = trimmed, res
    return best, best_res, used
