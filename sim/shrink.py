"""Minimiser over (programs, cancels, decisions, swarm) — DESIGN.md 3.9.

Hierarchical delta debugging: ddmin over the statement list of every body, top-down,
then unwrapping of compound statements, dropping of settings, simplification of
leaves, ddmin over the recorded decision list.  Every candidate is re-executed through
the simulator *as the first run of a brand-new process* and kept only if the same
clause class fails.  Candidates are evaluated in batches (one process each, in
parallel); within a batch the first success in generation order wins, so the result
is a deterministic function of the input.
"""

from __future__ import annotations

import copy
from typing import Callable

from . import program


def trim(spec: dict) -> dict:
    spec = copy.deepcopy(spec)
    while len(spec['programs']) > 1 and not spec['programs'][-1]:
        n = len(spec['programs']) - 1
        used = {s[1] for p in spec['programs'] for s in program.iter_statements(p) if s[0] == 'JOIN'}
        used |= {c[1] for c in spec.get('cancels', [])}
        if n in used:
            break
        spec['programs'].pop()
    return spec


def _body_at(spec: dict, path: tuple) -> list:
    body = spec['programs'][path[0]]
    k = 1
    while k < len(path):
        body = program.sub_bodies(body[path[k]])[path[k + 1]]
        k += 2
    return body


class _Shrinker:
    def __init__(self, spec, clause, execute_many, budget, batch, log, screen=None):
        self.best = copy.deepcopy(spec)
        self.best_res: dict | None = None
        self.clause = clause
        self.execute_many = execute_many
        self.budget = budget
        self.batch = max(1, batch)
        self.used = 0
        self.log = log
        self.by_switches = True
        self.round_mode = True
        self.screen = screen
        self.screened = 0
        self.screen_ok = 0
        self.screen_bad = 0

    # ------------------------------------------------------------------ evaluation
    def same(self, res: dict) -> bool:
        return res['status'] == 'violation' and res['violation']['clause'] == self.clause

    def first_success(self, cands: list[tuple[str, dict]]) -> int | None:
        """Adopts and returns the index of the first candidate (in generation order) that still fails.

        With a `screen` function the candidates are first tried *in-process* in sacrificial worker
        processes (cheap: milliseconds each, and for thread-world specs a few alternative scheduler
        seeds are tried when the recorded schedule no longer fails); only candidates that appeared to
        fail are then confirmed as the first run of a brand-new process, which is what counts.
        Without it every candidate is executed in a brand-new process.
        """
        valid: list[tuple[int, str, dict]] = []
        for i, (what, cand) in enumerate(cands):
            try:
                program.validate(cand)
            except ValueError:
                continue
            valid.append((i, what, cand))
        screened = False
        if self.screen is not None and valid:
            hits = self.screen([c for _, _, c in valid], self.clause)
            self.screened += len(valid)
            valid = [(i, what, hit) for (i, what, _), hit in zip(valid, hits) if hit is not None]
            screened = True
        pos = 0
        while pos < len(valid) and self.used < self.budget:
            group = valid[pos : pos + min(self.batch, self.budget - self.used)]
            results = self.execute_many([c for _, _, c in group])
            self.used += len(group)
            for (i, what, cand), res in zip(group, results):
                if self.same(res):
                    if res.get('decisions') is not None:
                        # keep both replay formats of the run that just failed: the flat list is the
                        # exact replay, the switch list is what further candidates are tried with
                        cand['decisions'] = res['decisions']
                        cand['switches'] = res.get('switch_log')
                    self.best, self.best_res = cand, res
                    if self.log:
                        self.log(f'shrink: {what} -> {program.count_statements(cand)} statements ({self.used} executions)')
                    if screened:
                        self.screen_ok += 1
                    return i
                if screened:
                    self.screen_bad += 1
            pos += len(group)
            if screened and self.screen_bad >= 6 and self.screen_bad > 2 * self.screen_ok:
                # the in-process hints do not hold up in fresh processes: the implementation under test
                # evidently keeps state across runs.  From here on every candidate goes to a new process.
                self.screen = None
                if self.log:
                    self.log('shrink: screening disabled (hints unreliable)')
                break
        return None

    def variant(self, mutate: Callable[[dict], None]) -> dict:
        cand = copy.deepcopy(self.best)
        mutate(cand)
        if self.by_switches and cand.get('world') == 'thread' and cand.get('switches') is not None and cand.get('decisions'):
            # a changed program shifts positions in the flat decision list; the switch list (positions
            # counted per actor) survives changes to other actors
            cand['decisions'] = None
        return cand

    # ------------------------------------------------------------------ phases
    def phase_global(self) -> bool:
        progress = False
        for _ in range(len(self.best['programs'])):
            cands = []
            for i, prog in enumerate(self.best['programs']):
                if prog:
                    cands.append((f'empty actor {i}', self.variant(lambda s, i=i: s['programs'].__setitem__(i, []))))
            if len(cands) <= 1 or self.first_success(cands) is None:
                break
            progress = True
        sw = self.best.get('swarm', {})
        for key in ('ultra', 'fine', 'park_cb'):
            if sw.get(key):
                if self.first_success([(f'{key} off', self.variant(lambda s, key=key: s['swarm'].__setitem__(key, False)))]) is not None:
                    progress = True
        if self.best.get('cancels'):
            if self.ddmin_list('cancels', lambda s: s['cancels']):
                progress = True
        if self.best.get('async_at'):
            if self.ddmin_list('async_at', lambda s: s['async_at']):
                progress = True
        return progress

    def ddmin_list(self, what: str, getter: Callable[[dict], list], max_exec: int | None = None) -> bool:
        """Classic ddmin (complement removal) over a list inside the spec."""
        progress = False
        n = 2
        stop_at = self.budget if max_exec is None else min(self.budget, self.used + max_exec)
        while self.used < stop_at:
            items = getter(self.best)
            size = len(items)
            if size == 0:
                break
            n = min(n, size)
            bounds = [(size * k // n, size * (k + 1) // n) for k in range(n)]
            cands = []
            for lo, hi in bounds:
                if hi > lo:
                    cands.append((f'drop {what}[{lo}:{hi}]', self.variant(lambda s, lo=lo, hi=hi: getter(s).__delitem__(slice(lo, hi)))))
            k = self.first_success(cands)
            if k is not None:
                progress = True
                n = max(n - 1, 2)
                continue
            if n >= size:
                break
            n = min(size, n * 2)
        return progress

    def min_body(self, path: tuple) -> bool:
        progress = self.ddmin_list(f'statements at {path}', lambda s: _body_at(s, path))
        # recurse into what is left
        i = 0
        while self.used < self.budget:
            body = _body_at(self.best, path)
            if i >= len(body):
                break
            for j, _ in enumerate(program.sub_bodies(body[i])):
                if self.min_body(path + (i, j)):
                    progress = True
            i += 1
        return progress

    def phase_unwrap(self) -> bool:
        progress = False
        changed = True
        while changed and self.used < self.budget:
            changed = False
            cands = []
            for ai, prog in enumerate(self.best['programs']):
                for path in self._stmt_paths(prog, (ai,)):
                    body = _body_at(self.best, path[:-1])
                    stmt = body[path[-1]]
                    if stmt[0] in ('BLOCK', 'ENTER', 'TRY', 'TIMEOUT', 'CTXRUN'):

                        def unwrap(s, path=path):
                            b = _body_at(s, path[:-1])
                            inner = program.sub_bodies(b[path[-1]])[0]
                            b[path[-1] : path[-1] + 1] = inner

                        cands.append((f'unwrap {stmt[0]}', self.variant(unwrap)))
            if self.first_success(cands) is not None:
                progress = changed = True
        return progress

    def _stmt_paths(self, body: list, prefix: tuple):
        for i, stmt in enumerate(body):
            yield prefix + (i,)
            for j, sub in enumerate(program.sub_bodies(stmt)):
                yield from self._stmt_paths(sub, prefix + (i, j))

    def phase_leaves(self) -> bool:
        progress = False
        changed = True
        while changed and self.used < self.budget:
            changed = False
            cands = []
            for ai, prog in enumerate(self.best['programs']):
                for path in self._stmt_paths(prog, (ai,)):
                    stmt = _body_at(self.best, path[:-1])[path[-1]]
                    if stmt[0] in ('BLOCK', 'CONSTRUCT', 'PREBUILD') and len(stmt[2]) > 1:
                        for key in sorted(stmt[2]):
                            cands.append((f'drop {key} from block {stmt[1]}', self.variant(lambda s, path=path, key=key: _body_at(s, path[:-1])[path[-1]][2].pop(key))))
                    if stmt[0] == 'APPLY' and (stmt[2] != 'eager' or stmt[3] is not None):

                        def simp(s, path=path):
                            st = _body_at(s, path[:-1])[path[-1]]
                            st[2], st[3] = 'eager', None

                        cands.append(('simplify APPLY', self.variant(simp)))
                    if stmt[0] in ('APPLY', 'ROUNDTRIP') and stmt[1] != 0:
                        cands.append((f'{stmt[0]} index -> 0', self.variant(lambda s, path=path: _body_at(s, path[:-1])[path[-1]].__setitem__(1, 0))))
                    if stmt[0] == 'RAISE' and stmt[1] not in ('exc', 'base'):
                        simple = 'exc' if stmt[1] in program.RAISES_EXC else 'base'
                        cands.append((f'RAISE {stmt[1]} -> {simple}', self.variant(lambda s, path=path, simple=simple: _body_at(s, path[:-1])[path[-1]].__setitem__(1, simple))))
                    if stmt[0] == 'SLEEP' and stmt[1] != 0:
                        cands.append(('SLEEP -> 0', self.variant(lambda s, path=path: _body_at(s, path[:-1])[path[-1]].__setitem__(1, 0))))
                    if stmt[0] == 'CREATE' and stmt[1] not in ('single:A',):
                        cands.append(('CREATE -> single:A', self.variant(lambda s, path=path: _body_at(s, path[:-1])[path[-1]].__setitem__(1, 'single:A'))))
            if self.first_success(cands) is not None:
                progress = changed = True
        return progress

    def phase_switches(self) -> bool:
        """Fewest hand-overs: ddmin over the per-actor switch list."""
        if self.best.get('world') != 'thread' or not self.best.get('switches'):
            return False
        return self.ddmin_list('switches', lambda s: s['switches'], max_exec=48)

    def phase_decisions(self) -> bool:
        dec = self.best.get('decisions')
        if not dec:
            return False
        self.by_switches = False
        try:
            return self._phase_decisions()
        finally:
            self.by_switches = self.round_mode

    def _phase_decisions(self) -> bool:
        if self.first_success([('no recorded decisions', self.variant(lambda s: s.__setitem__('decisions', [])))]) is not None:
            return True
        return self.ddmin_list('decisions', lambda s: s['decisions'], max_exec=48)

    def run(self) -> None:
        progress = True
        rounds = 0
        idle = 0  # consecutive rounds without progress (one per replay mode is enough to stop)
        thread_world = self.best.get('world') == 'thread'
        while self.used < self.budget and rounds < 8 and idle < (2 if thread_world else 1):
            rounds += 1
            # odd rounds replay candidates from the per-actor switch list, even rounds from the flat
            # decision list: schedule-dependent failures survive different edits under each
            self.by_switches = self.round_mode = rounds % 2 == 1
            progress = False
            progress |= self.phase_global()
            for ai in range(len(self.best['programs'])):
                if self.best['programs'][ai]:
                    progress |= self.min_body((ai,))
            progress |= self.phase_unwrap()
            progress |= self.phase_leaves()
            progress |= self.phase_switches()
            progress |= self.phase_decisions()
            idle = 0 if progress else idle + 1
        trimmed = trim(self.best)
        if trimmed != self.best and self.used < self.budget + 1:
            self.first_success([('trim empty trailing actors', trimmed)])


def minimise(
    spec: dict,
    clause: str,
    execute_many: Callable[[list[dict]], list[dict]],
    budget: int = 400,
    batch: int = 16,
    log: Callable[[str], None] | None = None,
    screen: Callable[[list[dict], str], list] | None = None,
) -> tuple[dict, dict | None, int]:
    """Returns (minimal spec, its result or None if nothing smaller failed, executions used).

    Stage 1 evaluates every candidate in a brand-new process.  If what is left is still large and
    lives in the thread world (a schedule-dependent failure: deleting a statement shifts the schedule
    and the failure disappears), stage 2 goes on with in-process screening under alternative
    scheduler seeds (`screen`), every hit still being confirmed in a brand-new process.
    """
    sh = _Shrinker(spec, clause, execute_many, budget, batch, log, None)
    sh.run()
    used = sh.used
    if screen is not None and sh.best.get('world') == 'thread' and program.count_statements(sh.best) > 6:
        start = sh.best
        sh2 = _Shrinker(sh.best, clause, execute_many, budget, batch, log, screen)
        sh2.run()
        used += sh2.used
        if sh2.best_res is not None and program.count_statements(sh2.best) < program.count_statements(start):
            return sh2.best, sh2.best_res, used
    return sh.best, sh.best_res, used
