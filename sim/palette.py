"""Settings palette, test operators and the direct-lineax expectation table.

Every value a program can write into a configuration is represented in logs and
models by a small *tag* (a str / bool), never by a repr with addresses.  This module
converts between tags and the real objects handed to `furax.Config`, and observes a
real `ConfigState` back into tags.

The expectation table (`expected_solve`) calls `lineax.linear_solve` directly,
bypassing furax, so it is an oracle that never touches `Config`.
"""

from __future__ import annotations

import threading
from typing import Any

import numpy as np

N = 6

# the model of the library defaults (field-wise)
DEFAULT = {'solver': 'cg500', 'throw': False, 'options': 'dflt', 'callback': 'default'}
FIELDS = ('solver', 'throw', 'options', 'callback')
KW_NAME = {
    'solver': 'solver',
    'throw': 'solver_throw',
    'options': 'solver_options',
    'callback': 'solver_callback',
}

PALETTE_SOLVERS = ('cg1', 'cg40', 'cg41', 'cg500', 'gm30', 'bi30')
OPTION_KINDS = ('E', 'P', 'Y', 'PY')
OPERATORS = ('A', 'B', 'T', 'AB', 'A2', 'RC')

_lock = threading.Lock()
_cache: dict[str, Any] = {}


def _lx():  # lazy: keep import order under the control of sim.env
    import lineax as lx

    return lx


# ----------------------------------------------------------------------------- solvers
_FAMILIES = {'cg': ('CG', 0), 'gm': ('GMRES', 0), 'bi': ('BiCGStab', 0), 'u': ('CG', 1000), 'g': ('GMRES', 2000), 'b': ('BiCGStab', 3000)}


def _parse_solver_tag(tag: str) -> tuple[str, int]:
    """tag -> (lineax solver class name, max_steps).  cg<N>/gm<N>/bi<N>: palette values;
    u<uid>/g<uid>/b<uid>: a unique value per block (max_steps encodes the uid)."""
    for prefix in ('cg', 'gm', 'bi', 'u', 'g', 'b'):
        if tag.startswith(prefix) and tag[len(prefix) :].isdigit():
            cls, base = _FAMILIES[prefix]
            return cls, base + int(tag[len(prefix) :])
    raise ValueError(tag)


def solver_for(tag: str, fresh: bool = False):
    """The solver object for a tag; `fresh` builds a new, equal but not identical, instance."""
    lx = _lx()
    key = 'solver:' + tag
    if fresh or key not in _cache:
        cls, max_steps = _parse_solver_tag(tag)
        obj = getattr(lx, cls)(rtol=1e-6, atol=1e-6, max_steps=max_steps)
        if fresh:
            return obj
        _cache[key] = obj
    return _cache[key]


def solver_tag(obj: Any) -> str:
    lx = _lx()
    for prefix, cls, lo, hi in (('cg', 'CG', 0, 1000), ('u', 'CG', 1000, 2000), ('gm', 'GMRES', 0, 1000), ('g', 'GMRES', 2000, 3000), ('bi', 'BiCGStab', 0, 1000), ('b', 'BiCGStab', 3000, 4000)):
        if type(obj) is getattr(lx, cls):
            try:
                rtol, atol, max_steps = float(obj.rtol), float(obj.atol), obj.max_steps
            except Exception:  # pragma: no cover - defensive
                return '?solver'
            if rtol == 1e-6 and atol == 1e-6 and isinstance(max_steps, int) and lo <= max_steps < hi:
                return f'{prefix}{max_steps - (lo if prefix in ("u", "g", "b") else 0)}'
    try:
        return f'?{type(obj).__name__}({obj.rtol},{obj.atol},{obj.max_steps})'
    except Exception:
        return '?' + type(obj).__name__


def solver_max_steps(tag: str) -> int:
    return _parse_solver_tag(tag)[1]


# ----------------------------------------------------------------------------- operators
def _matrices() -> dict[str, np.ndarray]:
    a = np.diag(np.full(N, 4.0)) + np.diag(np.full(N - 1, -1.0), 1) + np.diag(np.full(N - 1, -1.0), -1)
    b = np.diag(np.arange(1.0, N + 1)) + 0.5 * np.ones((N, N))
    return {'A': a, 'B': b}


def structure():
    import jax
    import jax.numpy as jnp

    return jax.ShapeDtypeStruct((N,), jnp.float32)


def operator(name: str):
    """Small SPD operators without a closed-form inverse in furax."""
    key = 'op:' + name
    with _lock:
        if key not in _cache:
            import jax.numpy as jnp
            from furax._base.dense import DenseBlockDiagonalOperator

            if name in ('A', 'B'):
                mat = _matrices()[name]
                _cache[key] = DenseBlockDiagonalOperator(
                    jnp.asarray(mat, jnp.float32), structure(), 'ij,j->i'
                )
            elif name == 'T':
                # another operator class of the library without a closed-form inverse (same matrix as A)
                from furax.operators.toeplitz import SymmetricBandToeplitzOperator

                _cache[key] = SymmetricBandToeplitzOperator(jnp.asarray([4.0, -1.0], jnp.float32), structure(), method='dense')
            elif name == 'RC':
                # block row @ block column = A A + B B: a square product of non-square block operators
                need = ('A', 'B')
            elif name == 'AB':
                # a sum (AdditionOperator): what `(A + B).I` holds after reduce()
                need = ('A', 'B')
            elif name == 'A2':
                # a scaled operator (composition with a homothety): what `(2 * A).I` holds after reduce()
                need = ('A',)
            else:
                raise ValueError(name)
        if key in _cache:
            return _cache[key]
    built = composite_source(name).reduce()
    with _lock:
        _cache.setdefault(key, built)
        return _cache[key]


def composite_source(name: str):
    """The un-reduced expression whose inverse a CREATE takes for the composite operators."""
    if name == 'AB':
        return operator('A') + operator('B')
    if name == 'A2':
        return 2.0 * operator('A')
    if name == 'RC':
        from furax._base.blocks import BlockColumnOperator, BlockRowOperator

        blocks = [operator('A'), operator('B')]
        return BlockRowOperator(blocks) @ BlockColumnOperator(blocks)
    return operator(name)


def diag_operator():
    key = 'op:D'
    with _lock:
        if key not in _cache:
            import jax.numpy as jnp
            from furax._base.diagonal import DiagonalOperator

            _cache[key] = DiagonalOperator(
                jnp.asarray(np.linspace(1.0, 2.0, N), jnp.float32), in_structure=structure()
            )
        return _cache[key]


def preconditioner():
    key = 'op:P'
    with _lock:
        if key not in _cache:
            import jax.numpy as jnp
            from furax._base.dense import DenseBlockDiagonalOperator

            inv = np.linalg.inv(_matrices()['A'])
            inv = (inv + inv.T) / 2
            _cache[key] = DenseBlockDiagonalOperator(
                jnp.asarray(inv, jnp.float32), structure(), 'ij,j->i'
            )
        return _cache[key]


def rhs():
    key = 'rhs'
    with _lock:
        if key not in _cache:
            import jax.numpy as jnp

            _cache[key] = jnp.arange(1, N + 1, dtype=jnp.float32)
        return _cache[key]


def y0():
    key = 'y0'
    with _lock:
        if key not in _cache:
            import jax.numpy as jnp

            sol = np.linalg.solve(_matrices()['A'], np.arange(1.0, N + 1))
            _cache[key] = jnp.asarray(sol, jnp.float32)
        return _cache[key]


def rhs_for(in_structure):
    """A right-hand side pytree for any handle built from the palette operators."""
    import jax

    return jax.tree.map(lambda _: rhs(), in_structure)


# ----------------------------------------------------------------------------- options
def make_options(kind: str, uid: int) -> dict[str, Any]:
    """A fresh dict per write.  `vtag` makes the write attributable (CG ignores it)."""
    opts: dict[str, Any] = {'vtag': np.int32(uid)}
    if 'P' in kind:
        opts['preconditioner'] = preconditioner()
    if 'Y' in kind:
        opts['y0'] = y0()
    return opts


def _same_value(a: Any, b: Any) -> bool:
    """Value equality of an option entry with the palette value (identity is not demanded: a correct
    implementation may copy, even deep-copy, the options it captures)."""
    if a is b:
        return True
    try:
        import equinox

        return bool(equinox.tree_equal(a, b))
    except Exception:
        return False


def options_kind(opts: Any) -> str:
    if not isinstance(opts, dict):
        return '?' + type(opts).__name__
    kind = ''
    for key in sorted(opts):
        if key == 'preconditioner':
            kind += 'P' if _same_value(opts[key], preconditioner()) else '?P'
        elif key == 'y0':
            kind += 'Y' if _same_value(opts[key], y0()) else '?Y'
        elif key == 'vtag':
            pass
        else:
            kind += f'?{key}'
    return kind or 'E'


def options_tag(opts: Any) -> str:
    """`dflt` for the library default (empty, untagged), else `<kind><uid>`."""
    if not isinstance(opts, dict):
        return '?' + type(opts).__name__
    if not opts:
        return 'dflt'
    kind = options_kind(opts)
    vtag = opts.get('vtag')
    if vtag is None:
        return kind + '?'
    try:
        return f'{kind}{int(vtag)}'
    except Exception:  # pragma: no cover - defensive
        return kind + '?'


def kind_of_options_tag(tag: str) -> str:
    if tag == 'dflt':
        return 'E'
    return tag.rstrip('0123456789')


# ----------------------------------------------------------------------------- observation
def observe(state: Any) -> dict[str, Any]:
    """Field-wise observation of a real ConfigState as tags (DESIGN.md 3.5)."""
    from furax._base.config import default_solver_callback

    try:
        cb = state.solver_callback
        if cb is default_solver_callback:
            cb_tag = 'default'
        else:
            cb_tag = getattr(cb, 'tag', None)
            if not isinstance(cb_tag, str):
                cb_tag = getattr(getattr(cb, '__self__', None), 'tag', None)  # a bound method
            if not isinstance(cb_tag, str):
                cb_tag = '?' + getattr(cb, '__name__', type(cb).__name__)
        throw = state.solver_throw
        if not isinstance(throw, bool):
            throw = '?' + repr(throw)
        return {
            'solver': solver_tag(state.solver),
            'throw': throw,
            'options': options_tag(state.solver_options),
            'callback': cb_tag,
        }
    except AttributeError as exc:
        return {'solver': '?', 'throw': '?', 'options': '?', 'callback': '?', 'error': str(exc)}


# ----------------------------------------------------------------------------- expectation table
_table: dict[tuple[str, str, str], tuple[int, int, bool]] = {}


def expected_solve(opname: str, solver: str, okind: str) -> tuple[int, int, bool]:
    """(num_steps, max_steps, successful) from lineax directly, never through furax."""
    key = (opname, solver, okind)
    with _lock:
        hit = _table.get(key)
    if hit is not None:
        return hit
    import jax

    lx = _lx()
    A = lx.TaggedLinearOperator(operator(opname), lx.positive_semidefinite_tag)
    options: dict[str, Any] = {}
    if 'P' in okind:
        options['preconditioner'] = lx.TaggedLinearOperator(
            preconditioner(), lx.positive_semidefinite_tag
        )
    if 'Y' in okind:
        options['y0'] = y0()
    sol = lx.linear_solve(A, rhs(), solver=solver_for(solver), throw=False, options=options)
    jax.block_until_ready(sol.value)
    res = (
        int(sol.stats['num_steps']),
        int(sol.stats['max_steps']),
        bool(sol.result == lx.RESULTS.successful),
    )
    with _lock:
        _table[key] = res
    return res


def table_snapshot() -> dict[str, list]:
    with _lock:
        return {'|'.join(k): list(v) for k, v in sorted(_table.items())}
